// C16: protocol decoders are total and bounded.
//
// For every kmsg wire type x version (the same registry as C15: requests,
// responses, stand-alone embedded types, the hand written Record and
// StickyMemberMetadata codecs) ReadFrom and UnsafeReadFrom are run on
//
//	(a) every byte string of length <= 2 (thorough: <= 3 for the 30 types
//	    with the fewest fields),
//	(b) every truncation of the valid encodings of the two C15 base valuations,
//	(c) every single-byte substitution from {00,01,7f,80,fe,ff} of those,
//	(d) a single-goroutine allocation pass over the length-prefix positions
//	    of those encodings replaced by huge claimed lengths.
//
// Oracle: no panic; TotalAlloc delta <= 1 KiB * len(input) + 64 KiB (pass d);
// a successful decode re-encodes and decodes again to an equal value.
package main

import (
	"encoding/hex"
	"encoding/json"
	"fmt"
	"hash/fnv"
	"os"
	"runtime"
	"runtime/debug"
	"sort"
	"sync"
	"sync/atomic"

	"verif/checks/c15/defs"

	"verif.local/ev"
)

type problem struct {
	Key      string
	What     string
	Artefact map[string]any
}

var subs = []byte{0x00, 0x01, 0x7f, 0x80, 0xfe, 0xff}

func hexCap(b []byte) string {
	if len(b) > 2000 {
		return hex.EncodeToString(b[:2000]) + fmt.Sprintf("...(%d bytes)", len(b))
	}
	return hex.EncodeToString(b)
}

// decode runs one decoder on a private copy of in, converting a panic into a
// value.
func decode(u *defs.Unit, in []byte, unsafe bool) (c defs.Codec, err error, pan any) {
	c = u.New()
	defer func() {
		if r := recover(); r != nil {
			pan = fmt.Sprintf("%v\n%s", r, debug.Stack())
		}
	}()
	if unsafe {
		err = c.UnsafeReadFrom(in)
	} else {
		err = c.ReadFrom(in)
	}
	return
}

// valueVersion is the version the decoded value says it has.
func valueVersion(u *defs.Unit, t *defs.SVal) int {
	switch {
	case u.S.TopLevel:
		return u.Version
	case u.S.WithVersionField:
		return int(t.F[0].(int64))
	case u.EffVersion != nil:
		return u.EffVersion(t)
	}
	return 0
}

// roundTrip re-encodes a successfully decoded value and decodes it again.
func roundTrip(u *defs.Unit, c defs.Codec) (what string, pan any) {
	defer func() {
		if r := recover(); r != nil {
			pan = fmt.Sprintf("%v\n%s", r, debug.Stack())
		}
	}()
	t1 := u.Tree(c)
	ver := valueVersion(u, t1)
	b2 := c.AppendTo(nil)
	c2 := u.New()
	if err := c2.ReadFrom(b2); err != nil {
		return fmt.Sprintf("re-decoding the re-encoded value failed: %v (re-encoded: %s)", err, hexCap(b2)), nil
	}
	t2 := u.Tree(c2)
	if d := defs.Diff(defs.NormaliseStruct(t1, ver), defs.NormaliseStruct(t2, ver), u.Name); d != "" {
		return "value changed across AppendTo+ReadFrom (decoded vs re-decoded): " + d + " (re-encoded: " + hexCap(b2) + ")", nil
	}
	return "", nil
}

type counters struct {
	evals, ok, rt int64
}

// try runs both oracles that do not need exclusive use of the process.
func try(u *defs.Unit, stage string, in []byte, unsafe bool, cn *counters, report func(problem)) {
	mode := "ReadFrom"
	if unsafe {
		mode = "UnsafeReadFrom"
	}
	cn.evals++
	c, err, pan := decode(u, in, unsafe)
	art := func() map[string]any {
		return map[string]any{"type": u.Name, "version": u.Version, "mode": mode, "stage": stage, "input_hex": hexCap(in), "input_len": len(in)}
	}
	if pan != nil {
		a := art()
		a["kind"], a["panic"] = "panic", pan
		report(problem{u.Name + ":panic:" + mode, fmt.Sprintf("%s v%d %s panics on %d-byte input %s", u.Name, u.Version, mode, len(in), hexCap(in)), a})
		return
	}
	if err != nil {
		return
	}
	cn.ok++
	what, pan := roundTrip(u, c)
	cn.rt++
	if pan != nil {
		a := art()
		a["kind"], a["panic"] = "panic-reencode", pan
		report(problem{u.Name + ":panic-reencode", fmt.Sprintf("%s v%d: re-encoding the value decoded by %s from %s panics", u.Name, u.Version, mode, hexCap(in)), a})
	} else if what != "" {
		a := art()
		a["kind"], a["detail"] = "roundtrip", what
		report(problem{u.Name + ":roundtrip", fmt.Sprintf("%s v%d %s of %s: %s", u.Name, u.Version, mode, hexCap(in), what), a})
	}
}

const (
	allocPerByte = 1 << 10
	allocSlack   = 64 << 10
)

// allocDelta measures TotalAlloc around one decode. Only valid while no other
// goroutine allocates.
func allocDelta(u *defs.Unit, in []byte, unsafe bool) (delta uint64, pan any) {
	c := u.New()
	var m1, m2 runtime.MemStats
	func() {
		defer func() {
			if r := recover(); r != nil {
				pan = fmt.Sprint(r)
			}
		}()
		runtime.ReadMemStats(&m1)
		if unsafe {
			_ = c.UnsafeReadFrom(in)
		} else {
			_ = c.ReadFrom(in)
		}
		runtime.ReadMemStats(&m2)
	}()
	return m2.TotalAlloc - m1.TotalAlloc, pan
}

// leadingTagCount returns 0 or 1 when, at the unit's version, the root struct
// is flexible and nothing (or exactly one 1-byte field) precedes its tag
// section, so that the tag count sits at that offset for every input; else -1.
func leadingTagCount(u *defs.Unit) int {
	if !u.S.TopLevel || !u.S.FlexibleIn(u.Version) {
		return -1
	}
	off := 0
	for _, f := range u.S.Fields {
		if f.Tag >= 0 || !f.InVersion(u.Version) {
			continue
		}
		if (f.Type.Kind == defs.KBool || f.Type.Kind == defs.KInt8) && off == 0 {
			off = 1
			continue
		}
		return -1
	}
	return off
}

// baseEncodings gives the valid encodings (reference encoder) of the two
// base valuations, with the positions of their length prefixes.
func baseEncodings(u *defs.Unit) []*defs.Enc {
	var out []*defs.Enc
	for _, b := range u.Bases() {
		ver := u.Version
		if u.EffVersion != nil {
			ver = u.EffVersion(b.V)
			if ver != u.Version {
				continue
			}
		}
		e, err := defs.Encode(u.S, b.V, ver)
		if err != nil {
			ev.InfraError("interpreter cannot encode %s base %s: %v", u, b.Base, err)
		}
		out = append(out, e)
	}
	return out
}

// hugeInputs are the inputs of the allocation pass: every byte of every
// length prefix replaced by 7f/fe/ff, and every whole prefix replaced by the
// largest positive / most negative claims of its width.
func hugeInputs(e *defs.Enc, fn func(in []byte, what string)) {
	for _, m := range e.Marks {
		for k := 0; k < m.Len; k++ {
			for _, s := range []byte{0x7f, 0xfe, 0xff} {
				if e.B[m.Off+k] == s {
					continue
				}
				in := append([]byte{}, e.B...)
				in[m.Off+k] = s
				fn(in, fmt.Sprintf("%s@%d+%d=%02x", m.What, m.Off, k, s))
			}
		}
		var whole [][]byte
		switch {
		case m.Len == 4:
			whole = [][]byte{{0x7f, 0xff, 0xff, 0xff}, {0x7f, 0xff, 0xff, 0xfe}, {0x00, 0xff, 0xff, 0xff}, {0x80, 0x00, 0x00, 0x00}}
		case m.Len == 2 && m.What == "strlen":
			whole = [][]byte{{0x7f, 0xff}, {0x80, 0x00}}
		case m.What == "tagcount":
			// a claimed count is iterated, not allocated; counts above two
			// uvarint bytes are left out (see evidence note on decode time)
			whole = [][]byte{{0xff, 0x7f}}
		default: // uvarint / varint prefixes: 2^31-1, 2^32-1, 2^28
			whole = [][]byte{{0xff, 0xff, 0xff, 0xff, 0x07}, {0xff, 0xff, 0xff, 0xff, 0x0f}, {0xfe, 0xff, 0xff, 0xff, 0x0f}, {0x80, 0x80, 0x80, 0x80, 0x01}}
		}
		for _, w := range whole {
			in := append([]byte{}, e.B[:m.Off]...)
			in = append(in, w...)
			in = append(in, e.B[m.Off+m.Len:]...)
			fn(in, fmt.Sprintf("%s@%d=%x", m.What, m.Off, w))
		}
	}
}

func main() {
	repo := os.Getenv("REPO")
	if repo == "" {
		repo = "/repo"
	}
	sc, err := defs.Load(repo)
	if err != nil {
		ev.InfraError("%v", err)
	}
	reg := defs.BuildRegistry(sc)
	if len(os.Args) == 3 && os.Args[1] == "--replay" {
		replay(reg, os.Args[2])
		return
	}
	thorough := ev.Thorough()

	r := ev.New("C16", "exploration")
	r.Rule("every kmsg decoder (ReadFrom and UnsafeReadFrom of every request/response through RequestForKey/ResponseForKey 0..MaxKey, every stand-alone embedded type, hand written Record and StickyMemberMetadata) at min and max version (quick) / every version (thorough) on: (a) all 65,793 byte strings of length <= 2 (thorough: all strings of length 3 for the 30 types with the fewest fields, see three_byte_rule); (b) every proper prefix of the reference encodings of the two C15 base valuations (all-default, all-populated); (c) every single-byte substitution from {00,01,7f,80,fe,ff} at every position of those encodings; (d) allocation pass, one goroutine: every byte of every length prefix (array/string/bytes length, tag count, tag size, struct marker) of those encodings replaced by 7f/fe/ff and every whole prefix replaced by extreme claims. Distinct = (type, version, stage, decoder, outcome) classes; distinct structured inputs counted separately")
	r.Assume("allocation is measured as runtime.MemStats.TotalAlloc delta around one decode while no other goroutine of the process runs harness code; a measurement above the bound is repeated three times and the minimum is used",
		"bound: delta <= 1 KiB * len(input) + 64 KiB (DESIGN.md C16)",
		"equality after re-encode/re-decode uses the C15 normalisation (nil == empty only where the field is not nullable at that version), floats by bit pattern",
		"decode time is not part of the property: see note_decode_time")

	var mu sync.Mutex
	reported := map[string]bool{}
	report := func(p problem) {
		mu.Lock()
		defer mu.Unlock()
		if reported[p.Key] {
			return
		}
		reported[p.Key] = true
		r.Violation(p.Key, p.What, p.Artefact)
	}

	// Select units. Types whose version is not given from outside (version
	// field in the bytes, or no version at all) need the blind sweeps (a)
	// only once.
	byType := map[string][]*defs.Unit{}
	var typeNames []string
	for _, u := range reg.Units {
		if byType[u.Name] == nil {
			typeNames = append(typeNames, u.Name)
		}
		byType[u.Name] = append(byType[u.Name], u)
	}
	sort.Strings(typeNames)
	var units []*defs.Unit     // for (b), (c), (d)
	var sweepUnits []*defs.Unit // for (a)
	for _, n := range typeNames {
		us := byType[n]
		pick := us
		if !thorough && len(us) > 2 {
			pick = []*defs.Unit{us[0], us[len(us)-1]}
		}
		units = append(units, pick...)
		if us[0].S.TopLevel {
			sweepUnits = append(sweepUnits, pick...)
		} else {
			sweepUnits = append(sweepUnits, us[0])
		}
	}

	// ---- (d) allocation pass, single goroutine, before any worker starts
	var allocEvals, allocMax int64
	var allocMaxAt string
	func() {
		for _, u := range units {
			modes := []bool{false}
			if thorough {
				modes = []bool{false, true}
			}
			for _, e := range baseEncodings(u) {
				hugeInputs(e, func(in []byte, what string) {
					for _, unsafe := range modes {
						allocEvals++
						d, pan := allocDelta(u, in, unsafe)
						if pan != nil {
							continue // reported by the panic oracle in (c)/(d2) below
						}
						bound := uint64(allocPerByte*len(in) + allocSlack)
						if d > bound {
							for k := 0; k < 3; k++ {
								if d2, _ := allocDelta(u, in, unsafe); d2 < d {
									d = d2
								}
							}
						}
						if int64(d) > allocMax {
							allocMax, allocMaxAt = int64(d), fmt.Sprintf("%s %s (%d bytes in)", u, what, len(in))
						}
						if d > bound {
							mode := "ReadFrom"
							if unsafe {
								mode = "UnsafeReadFrom"
							}
							report(problem{u.Name + ":alloc", fmt.Sprintf("%s v%d %s allocates %d bytes for a %d-byte input (bound %d): %s, input %s", u.Name, u.Version, mode, d, len(in), bound, what, hexCap(in)),
								map[string]any{"type": u.Name, "version": u.Version, "mode": mode, "stage": "alloc", "kind": "alloc", "input_hex": hexCap(in), "input_len": len(in), "allocated": d, "bound": bound, "mutation": what}})
						}
					}
				})
			}
		}
	}()
	r.Evals(allocEvals)

	// ---- parallel part
	type job func(cn *counters)
	jobs := make(chan job, 64)
	var wg sync.WaitGroup
	var total counters
	var structured int64
	outcomes := map[string]struct{}{}
	for w := 0; w < ev.Workers(); w++ {
		wg.Add(1)
		go func() {
			defer wg.Done()
			for j := range jobs {
				var cn counters
				j(&cn)
				atomic.AddInt64(&total.evals, cn.evals)
				atomic.AddInt64(&total.ok, cn.ok)
				atomic.AddInt64(&total.rt, cn.rt)
				r.Evals(cn.evals)
			}
		}()
	}
	note := func(u *defs.Unit, stage string, before counters, cn *counters) {
		mu.Lock()
		if cn.ok > before.ok {
			outcomes[fmt.Sprintf("%s/%s/ok", u, stage)] = struct{}{}
		}
		if cn.evals-before.evals > cn.ok-before.ok {
			outcomes[fmt.Sprintf("%s/%s/error", u, stage)] = struct{}{}
		}
		mu.Unlock()
	}

	// (b) + (c) + panic/round-trip on the (d) inputs
	for _, u := range units {
		u := u
		jobs <- func(cn *counters) {
			seen := map[uint64]struct{}{}
			run := func(stage string, in []byte) {
				h := fnv.New64a()
				h.Write(in)
				seen[h.Sum64()] = struct{}{}
				try(u, stage, in, false, cn, report)
				try(u, stage, in, true, cn, report)
			}
			for _, e := range baseEncodings(u) {
				b0 := *cn
				run("valid", e.B)
				if cn.ok-b0.ok != 2 {
					report(problem{u.Name + ":valid-rejected", fmt.Sprintf("%s v%d rejects (or panics on) the reference encoding of a base valuation: %s", u.Name, u.Version, hexCap(e.B)),
						map[string]any{"type": u.Name, "version": u.Version, "mode": "ReadFrom", "stage": "valid", "kind": "valid-rejected", "input_hex": hexCap(e.B)}})
				}
				b0 = *cn
				for n := 0; n < len(e.B); n++ {
					run("truncation", e.B[:n:n])
				}
				note(u, "truncation", b0, cn)
				b0 = *cn
				for i := range e.B {
					for _, s := range subs {
						if e.B[i] == s {
							continue
						}
						in := append([]byte{}, e.B...)
						in[i] = s
						run("substitution", in)
					}
				}
				note(u, "substitution", b0, cn)
				b0 = *cn
				hugeInputs(e, func(in []byte, _ string) { run("huge-length", in) })
				note(u, "huge-length", b0, cn)
			}
			atomic.AddInt64(&structured, int64(len(seen)))
		}
	}

	// (a) all byte strings of length <= 2
	for _, u := range sweepUnits {
		u := u
		jobs <- func(cn *counters) {
			b0 := *cn
			for _, unsafe := range []bool{false, true} {
				try(u, "len0", []byte{}, unsafe, cn, report)
				for a := 0; a < 256; a++ {
					try(u, "len1", []byte{byte(a)}, unsafe, cn, report)
				}
				for a := 0; a < 256; a++ {
					for b := 0; b < 256; b++ {
						try(u, "len2", []byte{byte(a), byte(b)}, unsafe, cn, report)
					}
				}
			}
			note(u, "len<=2", b0, cn)
		}
	}

	// (a3) thorough: all strings of length 3 for the 30 smallest types
	var smallNames, excludedUnits []string
	var excluded3 int64
	if thorough {
		type ts struct {
			n string
			p int
		}
		var l []ts
		for _, n := range typeNames {
			l = append(l, ts{n, len(defs.Paths(byType[n][0].S))})
		}
		sort.SliceStable(l, func(i, j int) bool { return l[i].p < l[j].p })
		small := map[string]bool{}
		for _, t := range l[:30] {
			small[t.n] = true
			smallNames = append(smallNames, fmt.Sprintf("%s(%d)", t.n, t.p))
		}
		for _, u := range sweepUnits {
			if !small[u.Name] {
				continue
			}
			u := u
			tc := leadingTagCount(u)
			if tc >= 0 {
				excludedUnits = append(excludedUnits, fmt.Sprintf("%s@%d", u, tc))
			}
			for a := 0; a < 256; a++ {
				a := a
				jobs <- func(cn *counters) {
					b0 := *cn
					in := make([]byte, 3)
					for b := 0; b < 256; b++ {
						if (tc == 0 && a >= 0x80) || (tc == 1 && b >= 0x80) {
							// three_byte_rule: see evidence
							atomic.AddInt64(&excluded3, 2*256)
							continue
						}
						for c := 0; c < 256; c++ {
							in[0], in[1], in[2] = byte(a), byte(b), byte(c)
							try(u, "len3", in, false, cn, report)
							try(u, "len3", in, true, cn, report)
						}
					}
					note(u, "len3", b0, cn)
				}
			}
		}
	}
	close(jobs)
	wg.Wait()

	for k := range outcomes {
		r.Distinct(k)
	}
	r.Sample(map[string]any{"stage": "allocation pass", "largest_allocation_seen_bytes": allocMax, "at": allocMaxAt})
	for i, u := range units {
		if i%211 == 0 {
			for _, e := range baseEncodings(u) {
				r.Sample(map[string]any{"type": u.Name, "version": u.Version, "base_encoding_hex": hexCap(e.B), "length_prefix_positions": len(e.Marks)})
				break
			}
		}
	}
	sort.Strings(reg.Uncovered)
	if reg.Uncovered == nil {
		reg.Uncovered = []string{}
	}
	r.Set("types_covered", reg.Types)
	r.Set("type_versions_structured", len(units))
	r.Set("type_versions_blind_sweep", len(sweepUnits))
	r.Set("uncovered_types", reg.Uncovered)
	r.Set("decoders", "ReadFrom + UnsafeReadFrom of every registry type; kmsg has no multi-record reader (the record/message-set loops live unexported in pkg/kgo/source.go and are outside this property's anchors); MessageV0, MessageV1, Record, RecordBatch, Header and StickyMemberMetadata are units of the registry")
	r.Set("allocation_pass_evaluations", allocEvals)
	r.Set("allocation_pass_max_bytes", allocMax)
	r.Set("allocation_pass_max_at", allocMaxAt)
	r.Set("successful_decodes_round_tripped", total.rt)
	r.Set("distinct_structured_inputs", structured)
	if thorough {
		r.Set("three_byte_types", smallNames)
		r.Set("three_byte_inputs_excluded", excluded3)
		r.Set("three_byte_units_with_exclusion", excludedUnits)
		r.Set("three_byte_rule", "units whose layout at that version puts the tag-section count at a fixed offset 0 or 1 (no field, or one 1-byte field, before it; listed as unit@offset) leave out the 3-byte inputs whose byte at that offset has the high bit set: the count is then a multi-byte uvarint that the decoder iterates even after the input is exhausted (see note_decode_time), 10^2..10^4 s per unit without reaching new code; every other 3-byte string is run")
	}
	r.Set("note_decode_time", "not a violation of C16 as stated (time is not in the statement): internalReadTags (api.go) and the generated tag loops run `for n := b.Uvarint(); n > 0; n--` without testing b.Ok(), so a 5-byte body ff ff ff ff 0f in a flexible struct without defined tags spins 2^32-1 iterations before returning ErrNotEnoughData; memory stays constant")
	r.Set("bound_completed", map[string]any{"len<=2": "all units of the blind sweep", "len3": len(smallNames), "truncations+substitutions": "both base valuations of all structured units", "alloc_bound": "1KiB*len+64KiB"})
	if len(reg.Uncovered) > 0 {
		r.NotExhaustive(fmt.Sprintf("%d types could not be driven, see uncovered_types", len(reg.Uncovered)))
	}
	for _, m := range reg.Mismatches {
		ev.InfraError("definitions and pkg/kmsg disagree (C15 reports this as a violation): %s", m)
	}
	r.Finish()
}

func replay(reg *defs.Registry, path string) {
	b, err := os.ReadFile(path)
	if err != nil {
		ev.InfraError("%v", err)
	}
	var f struct {
		Artefact struct {
			Type    string `json:"type"`
			Version int    `json:"version"`
			Mode    string `json:"mode"`
			Kind    string `json:"kind"`
			Hex     string `json:"input_hex"`
		} `json:"artefact"`
	}
	if err := json.Unmarshal(b, &f); err != nil {
		ev.InfraError("%v", err)
	}
	in, err := hex.DecodeString(f.Artefact.Hex)
	if err != nil {
		ev.InfraError("artefact input was truncated for display: %v", err)
	}
	for _, u := range reg.Units {
		if u.Name != f.Artefact.Type || u.Version != f.Artefact.Version {
			continue
		}
		unsafe := f.Artefact.Mode == "UnsafeReadFrom"
		bad := false
		if f.Artefact.Kind == "alloc" {
			d, _ := allocDelta(u, in, unsafe)
			bound := uint64(allocPerByte*len(in) + allocSlack)
			fmt.Printf("REPLAY: allocated %d bytes, bound %d\n", d, bound)
			bad = d > bound
		}
		var cn counters
		try(u, "replay", in, unsafe, &cn, func(p problem) { bad = true; fmt.Println("REPLAY:", p.What) })
		if f.Artefact.Kind == "valid-rejected" && cn.ok == 0 {
			bad = true
			fmt.Println("REPLAY: valid encoding still rejected")
		}
		if bad {
			fmt.Println("REPLAY: still violated")
			os.Exit(1)
		}
		fmt.Println("REPLAY: holds")
		return
	}
	ev.InfraError("no unit %s v%d", f.Artefact.Type, f.Artefact.Version)
}
