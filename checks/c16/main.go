// C16: protocol decoders are total and bounded.
//
// For every kmsg wire type x version (the same registry as C15: requests,
// responses, stand-alone embedded types, the hand written Record and
// StickyMemberMetadata codecs) ReadFrom and UnsafeReadFrom are run on
//
//	(a) every byte string of length <= 2 (thorough: <= 3 for the 30 types
//	    with the fewest fields),
//	(b) every truncation of the valid encodings of the two C15 base valuations,
//	(c) every single-byte substitution from {00,01,7f,80,fe,ff} of those,
//	(d) a single-goroutine allocation pass over the length-prefix positions
//	    of those encodings replaced by huge claimed lengths,
//	(e) every variable-length integer of those encodings (and of values that
//	    need each byte count) rewritten to every encodable length, with all
//	    prefixes and continuation-bit flips, plus pkg/kbin driven directly.
//
// Oracle: no panic; TotalAlloc delta <= 1 KiB * len(input) + 64 KiB (pass d);
// a successful decode re-encodes and decodes again to an equal value.
package main

import (
	"encoding/binary"
	"encoding/hex"
	"encoding/json"
	"fmt"
	"hash/fnv"
	"os"
	"reflect"
	"runtime"
	"runtime/debug"
	"runtime/pprof"
	"sort"
	"strings"
	"sync"
	"sync/atomic"
	"time"

	"github.com/twmb/franz-go/pkg/kbin"

	"verif/checks/c15/defs"

	"verif.local/ev"
)

type problem struct {
	Key      string
	What     string
	Artefact map[string]any
}

var subs = []byte{0x00, 0x01, 0x7f, 0x80, 0xfe, 0xff}

func hexCap(b []byte) string {
	if len(b) > 2000 {
		return hex.EncodeToString(b[:2000]) + fmt.Sprintf("...(%d bytes)", len(b))
	}
	return hex.EncodeToString(b)
}

// decode runs one decoder on a private copy of in, converting a panic into a
// value.
func decode(inst *defs.Inst, in []byte, unsafe bool) (c defs.Codec, err error, pan any) {
	c = inst.Reset()
	defer func() {
		if r := recover(); r != nil {
			pan = fmt.Sprintf("%v\n%s", r, debug.Stack())
		}
	}()
	if unsafe {
		err = c.UnsafeReadFrom(in)
	} else {
		err = c.ReadFrom(in)
	}
	return
}

// valueVersion is the version the decoded value says it has.
func valueVersion(u *defs.Unit, t *defs.SVal) int {
	switch {
	case u.S.TopLevel:
		return u.Version
	case u.S.WithVersionField:
		return int(t.F[0].(int64))
	case u.EffVersion != nil:
		return u.EffVersion(t)
	}
	return 0
}

// roundTrip re-encodes a successfully decoded value and decodes it again.
func roundTrip(u *defs.Unit, c defs.Codec, inLen int) (what string, pan any) {
	defer func() {
		if r := recover(); r != nil {
			pan = fmt.Sprintf("%v\n%s", r, debug.Stack())
		}
	}()
	b2 := c.AppendTo(nil)
	if len(b2) > inLen {
		// The re-encoding is canonical (minimal varints, defaults and
		// duplicate tags dropped), so it can never need more bytes than the
		// decoder was given: a longer one means the decoder accepted an input
		// that was too short for the value it returned.
		return fmt.Sprintf("short input accepted: decoded without error from %d bytes, but the decoded value needs %d bytes on the wire (%s)", inLen, len(b2), hexCap(b2)), nil
	}
	c2 := u.New()
	if err := c2.ReadFrom(b2); err != nil {
		return fmt.Sprintf("re-decoding the re-encoded value failed: %v (re-encoded: %s)", err, hexCap(b2)), nil
	}
	if reflect.DeepEqual(c, c2) {
		return "", nil // identical even before normalisation
	}
	t1, t2 := u.Tree(c), u.Tree(c2)
	ver := valueVersion(u, t1)
	if d := defs.Diff(defs.NormaliseStruct(t1, ver), defs.NormaliseStruct(t2, ver), u.Name); d != "" {
		return "value changed across AppendTo+ReadFrom (decoded vs re-decoded): " + d + " (re-encoded: " + hexCap(b2) + ")", nil
	}
	return "", nil
}

type counters struct {
	evals, ok, rt int64
}

// try runs both oracles that do not need exclusive use of the process.
func try(u *defs.Unit, inst *defs.Inst, stage string, in []byte, unsafe bool, cn *counters, report func(problem)) {
	mode := "ReadFrom"
	if unsafe {
		mode = "UnsafeReadFrom"
	}
	cn.evals++
	c, err, pan := decode(inst, in, unsafe)
	art := func() map[string]any {
		return map[string]any{"type": u.Name, "version": u.Version, "mode": mode, "stage": stage, "input_hex": hexCap(in), "input_len": len(in)}
	}
	if pan != nil {
		a := art()
		a["kind"], a["panic"] = "panic", pan
		report(problem{u.Name + ":panic:" + mode, fmt.Sprintf("%s v%d %s panics on %d-byte input %s", u.Name, u.Version, mode, len(in), hexCap(in)), a})
		return
	}
	if err != nil {
		return
	}
	cn.ok++
	what, pan := roundTrip(u, c, len(in))
	cn.rt++
	if pan != nil {
		a := art()
		a["kind"], a["panic"] = "panic-reencode", pan
		report(problem{u.Name + ":panic-reencode", fmt.Sprintf("%s v%d: re-encoding the value decoded by %s from %s panics", u.Name, u.Version, mode, hexCap(in)), a})
	} else if what != "" {
		a := art()
		a["kind"], a["detail"] = "roundtrip", what
		k := ":roundtrip"
		if strings.HasPrefix(what, "short input") {
			k = ":short-input"
		}
		report(problem{u.Name + k, fmt.Sprintf("%s v%d %s of %s: %s", u.Name, u.Version, mode, hexCap(in), what), a})
	}
}

const (
	allocPerByte = 1 << 10
	allocSlack   = 64 << 10
)

// allocDelta measures TotalAlloc around one decode. Only valid while no other
// goroutine allocates.
func allocDelta(u *defs.Unit, in []byte, unsafe bool) (delta uint64, pan any) {
	c := u.New()
	var m1, m2 runtime.MemStats
	func() {
		defer func() {
			if r := recover(); r != nil {
				pan = fmt.Sprint(r)
			}
		}()
		runtime.ReadMemStats(&m1)
		if unsafe {
			_ = c.UnsafeReadFrom(in)
		} else {
			_ = c.ReadFrom(in)
		}
		runtime.ReadMemStats(&m2)
	}()
	return m2.TotalAlloc - m1.TotalAlloc, pan
}

// leadingTagCount returns 0 or 1 when, at the unit's version, the root struct
// is flexible and nothing (or exactly one 1-byte field) precedes its tag
// section, so that the tag count sits at that offset for every input; else -1.
func leadingTagCount(u *defs.Unit) int {
	if !u.S.TopLevel || !u.S.FlexibleIn(u.Version) {
		return -1
	}
	off := 0
	for _, f := range u.S.Fields {
		if f.Tag >= 0 || !f.InVersion(u.Version) {
			continue
		}
		if (f.Type.Kind == defs.KBool || f.Type.Kind == defs.KInt8) && off == 0 {
			off = 1
			continue
		}
		return -1
	}
	return off
}

// baseEncodings gives the valid encodings (reference encoder) of the two
// base valuations, with the positions of their length prefixes.
func baseEncodings(u *defs.Unit) []*defs.Enc {
	var out []*defs.Enc
	for _, b := range u.Bases() {
		ver := u.Version
		if u.EffVersion != nil {
			ver = u.EffVersion(b.V)
			if ver != u.Version {
				continue
			}
		}
		e, err := defs.Encode(u.S, b.V, ver)
		if err != nil {
			ev.InfraError("interpreter cannot encode %s base %s: %v", u, b.Base, err)
		}
		out = append(out, e)
	}
	return out
}

// claim decodes the length prefix of the given form at off; negative or
// malformed prefixes claim nothing.
func claim(in []byte, off int, form string) int64 {
	uv := func() (uint32, bool) {
		var v uint32
		for i := 0; i < 5 && off+i < len(in); i++ {
			b := in[off+i]
			v |= uint32(b&0x7f) << (7 * i)
			if b < 0x80 {
				return v, true
			}
		}
		return 0, false
	}
	switch form {
	case "i32":
		if off+4 <= len(in) {
			if v := int32(binary.BigEndian.Uint32(in[off:])); v > 0 {
				return int64(v)
			}
		}
	case "i16":
		if off+2 <= len(in) {
			if v := int16(binary.BigEndian.Uint16(in[off:])); v > 0 {
				return int64(v)
			}
		}
	case "uvarint":
		if v, ok := uv(); ok {
			return int64(v)
		}
	case "varint":
		if v, ok := uv(); ok {
			if z := int32(v>>1) ^ -int32(v&1); z > 0 {
				return int64(z)
			}
		}
	}
	return 0
}

type hugeInput struct {
	in    []byte
	what  string
	claim int64
}

// maxTagCountClaim: a claimed tag count is iterated, not allocated, and the
// loop does not stop when the input is exhausted (see note_decode_time), so
// larger claims are left out of the structured inputs.
const maxTagCountClaim = 0x3fff

// hugeInputs lists, for one length prefix, the encodings with that prefix
// changed to claim much more than is there: every byte of the prefix replaced
// by 7f/fe/ff and the whole prefix replaced by a ladder 0x7f, 0xff, 0xfff, ...
// up to the largest value of its form plus the negative extremes. The list is
// ordered by claimed length so that, if a clamp is missing, the smallest
// over-allocation is observed first.
func hugeInputs(e *defs.Enc, m defs.Mark) (out []hugeInput, skipped int) {
	add := func(in []byte, what string) {
		c := claim(in, m.Off, m.Form)
		if m.What == "tagcount" && c > maxTagCountClaim {
			skipped++
			return
		}
		out = append(out, hugeInput{in, what, c})
	}
	for k := 0; k < m.Len; k++ {
		for _, s := range []byte{0x7f, 0xfe, 0xff} {
			if e.B[m.Off+k] == s {
				continue
			}
			in := append([]byte{}, e.B...)
			in[m.Off+k] = s
			add(in, fmt.Sprintf("%s@%d+%d=%02x", m.What, m.Off, k, s))
		}
	}
	var whole [][]byte
	ladder := []uint32{0x7f, 0xff, 0xfff, 0xffff, 0xfffff, 0xffffff, 0xfffffff, 0x7fffffff}
	switch m.Form {
	case "i32":
		for _, v := range append(ladder, 0x80000000, 0xfffffffe) {
			whole = append(whole, binary.BigEndian.AppendUint32(nil, v))
		}
	case "i16":
		for _, v := range []uint16{0x7f, 0xff, 0xfff, 0x7fff, 0x8000, 0xfffe} {
			whole = append(whole, binary.BigEndian.AppendUint16(nil, v))
		}
	case "uvarint":
		for _, v := range append(ladder, 0xffffffff) {
			whole = append(whole, defs.AppendUvarint(nil, v))
		}
	case "varint":
		for _, v := range ladder {
			whole = append(whole, defs.AppendVarint(nil, int32(v)))
		}
		whole = append(whole, defs.AppendVarint(nil, -2), defs.AppendVarint(nil, -1<<31))
	case "i8":
		whole = [][]byte{{0x00}, {0x80}}
	}
	for _, w := range whole {
		in := append([]byte{}, e.B[:m.Off]...)
		in = append(in, w...)
		in = append(in, e.B[m.Off+m.Len:]...)
		add(in, fmt.Sprintf("%s@%d=%x", m.What, m.Off, w))
	}
	sort.SliceStable(out, func(i, j int) bool { return out[i].claim < out[j].claim })
	return out, skipped
}

// ---- stage (e): every arm of the unrolled variable-length integer decoders

func maxVarLen(form string) int {
	if form == "varlong" {
		return 10
	}
	return 5
}

type armVariant struct {
	in   []byte
	off  int // offset of the rewritten site
	n    int // its new length
	what string
}

// armVariants rewrites one variable-length integer of a valid encoding so
// that it occupies every encodable byte count: the same value padded with
// zero continuation groups to each length up to the maximum (5 for 32 bit,
// 10 for 64 bit), the maximum length with an overflowing last byte, and
// max+1 continuation bytes.
func armVariants(b []byte, m defs.Mark, tagLoops bool) []armVariant {
	mx := maxVarLen(m.Form)
	splice := func(site []byte, what string) armVariant {
		in := append([]byte{}, b[:m.Off]...)
		in = append(in, site...)
		in = append(in, b[m.Off+m.Len:]...)
		return armVariant{in, m.Off, len(site), fmt.Sprintf("%s@%d %s", m.Form, m.Off, what)}
	}
	pad := func(L int) []byte {
		site := append([]byte{}, b[m.Off:m.Off+m.Len]...)
		site[len(site)-1] |= 0x80
		for len(site) < L-1 {
			site = append(site, 0x80)
		}
		return append(site, 0x00)
	}
	var out []armVariant
	for L := m.Len + 1; L <= mx; L++ {
		out = append(out, splice(pad(L), fmt.Sprintf("padded to %d bytes", L)))
	}
	full := pad(mx)
	if m.Len == mx {
		full = append([]byte{}, b[m.Off:m.Off+m.Len]...)
	}
	over := byte(0x10) // smallest overflowing last byte: > 0x0f (32 bit), > 0x01 (64 bit)
	if mx == 10 {
		over = 0x02
	}
	lasts, conts := []byte{over, 0x7f}, []byte{0x80, 0x81, 0xff}
	if tagLoops {
		// in units with tag sections a shifted parse would iterate these as
		// tag counts of 2^27 and more (see the guard in stage (e))
		lasts, conts = []byte{over}, []byte{0x80}
	}
	for _, last := range lasts {
		site := append([]byte{}, full...)
		site[mx-1] = last
		out = append(out, splice(site, fmt.Sprintf("%d bytes, last byte %02x", mx, last)))
	}
	for _, c := range conts {
		site := make([]byte, mx+1)
		for i := range site {
			site[i] = c
		}
		out = append(out, splice(site, fmt.Sprintf("%d x %02x", mx+1, c)))
	}
	return out
}

// armBases are the valid encodings whose integers stage (e) rewrites: the
// two base valuations plus, for every varint/varlong value field, values
// that really need each byte count. big holds encodings with real payloads
// behind 2- and 3-byte varint lengths; they only get prefixes and flips.
func armBases(u *defs.Unit) (small, big []*defs.Enc) {
	small = baseEncodings(u)
	if u.EffVersion != nil {
		return
	}
	base := u.Bases()[1]
	enc := func(v *defs.SVal) *defs.Enc {
		defs.FixDerived(v, u.Version)
		e, err := defs.Encode(u.S, v, u.Version)
		if err != nil {
			ev.InfraError("interpreter cannot encode %s: %v", u, err)
		}
		return e
	}
	for _, p := range defs.Paths(u.S) {
		if p.T == nil {
			continue
		}
		switch p.T.Kind {
		case defs.KVarint, defs.KVarlong:
			groups := 4
			if p.T.Kind == defs.KVarlong {
				groups = 9
			}
			for k := 1; k <= groups; k++ {
				v := int64(1) << (7*k - 1) // zig-zag needs k+1 bytes
				small = append(small, enc(defs.Apply(base.V, p, v)), enc(defs.Apply(base.V, p, -v-1)))
			}
			if p.T.Kind == defs.KVarint {
				small = append(small, enc(defs.Apply(base.V, p, int64(1<<31-1))), enc(defs.Apply(base.V, p, int64(-1<<31))))
			} else {
				small = append(small, enc(defs.Apply(base.V, p, int64(1<<63-1))), enc(defs.Apply(base.V, p, int64(-1<<63))))
			}
		case defs.KVarintString:
			for _, n := range []int{64, 8192} {
				big = append(big, enc(defs.Apply(base.V, p, defs.Str{S: strings.Repeat("x", n)})))
			}
		case defs.KVarintBytes:
			for _, n := range []int{64, 8192} {
				big = append(big, enc(defs.Apply(base.V, p, defs.Byt{B: make([]byte, n)})))
			}
		case defs.KArray:
			if p.T.VarintLen {
				a := &defs.Arr{E: make([]any, 64)}
				for i := range a.E {
					a.E[i] = defs.DefaultOf(p.T.Elem)
				}
				big = append(big, enc(defs.Apply(base.V, p, a)))
			}
		}
	}
	return
}

// armFullLimit: variants of encodings up to this size get every longer
// prefix and a continuation-bit flip at every position; larger ones get the
// prefixes that end inside or up to 8 bytes after the rewritten integer and
// flips inside it.
const armFullLimit = 400

// shiftedCount is what Reader.Uvarint would return at off (0 when it fails:
// truncated, or a fifth byte above 0x0f).
func shiftedCount(in []byte, off int) int64 {
	var v uint64
	for i := 0; i < 5 && off+i < len(in); i++ {
		b := in[off+i]
		if i == 4 {
			if b > 0x0f {
				return 0
			}
			return int64(v | uint64(b)<<28)
		}
		v |= uint64(b&0x7f) << (7 * i)
		if b < 0x80 {
			return int64(v)
		}
	}
	return 0
}

// armMaxShiftedClaim: see the guard in stage (e).
const armMaxShiftedClaim = 1 << 20

// kbinDirect drives the public copy of the primitives (pkg/kbin) directly:
// every prefix of every pattern of k continuation bytes followed by a
// terminal byte, k = 0..11, through the unrolled functions and the Reader
// methods that call them.
func kbinDirect(report func(problem)) (evals int64) {
	run := func(name string, in []byte, f func()) {
		evals++
		defer func() {
			if r := recover(); r != nil {
				report(problem{"kbin:" + name + ":panic", fmt.Sprintf("pkg/kbin %s panics on %s: %v", name, hexCap(in), r),
					map[string]any{"type": "kbin." + name, "version": 0, "mode": "direct", "stage": "kbin-direct", "kind": "panic", "input_hex": hexCap(in), "panic": fmt.Sprint(r)}})
			}
		}()
		f()
	}
	check := func(name string, in []byte, n int) {
		if n > len(in) {
			report(problem{"kbin:" + name + ":overread", fmt.Sprintf("pkg/kbin %s reports %d bytes consumed from %d-byte input %s", name, n, len(in), hexCap(in)),
				map[string]any{"type": "kbin." + name, "version": 0, "mode": "direct", "stage": "kbin-direct", "kind": "overread", "input_hex": hexCap(in)}})
		}
	}
	try := func(in []byte) {
		run("Uvarint", in, func() { _, n := kbin.Uvarint(in); check("Uvarint", in, n) })
		run("Varint", in, func() { _, n := kbin.Varint(in); check("Varint", in, n) })
		run("Varlong", in, func() { _, n := kbin.Varlong(in); check("Varlong", in, n) })
		run("Reader.Uvarint", in, func() { b := kbin.Reader{Src: in}; b.Uvarint(); b.Complete() })
		run("Reader.Varint", in, func() { b := kbin.Reader{Src: in}; b.Varint(); b.Complete() })
		run("Reader.Varlong", in, func() { b := kbin.Reader{Src: in}; b.Varlong(); b.Complete() })
		run("Reader.VarintBytes", in, func() { b := kbin.Reader{Src: in}; b.VarintBytes(); b.Complete() })
		run("Reader.VarintArrayLen", in, func() { b := kbin.Reader{Src: in}; b.VarintArrayLen(); b.Complete() })
		run("Reader.CompactArrayLen", in, func() { b := kbin.Reader{Src: in}; b.CompactArrayLen(); b.Complete() })
		run("Reader.CompactNullableString", in, func() { b := kbin.Reader{Src: in}; b.CompactNullableString(); b.Complete() })
	}
	for _, c := range []byte{0x80, 0x81, 0xff} {
		for k := 0; k <= 11; k++ {
			for _, t := range []int{-1, 0x00, 0x01, 0x02, 0x0f, 0x10, 0x7f} {
				in := make([]byte, k, k+1)
				for i := range in {
					in[i] = c
				}
				if t >= 0 {
					in = append(in, byte(t))
				}
				for n := 0; n <= len(in); n++ {
					try(in[:n:n])
				}
			}
		}
	}
	return
}

func main() {
	repo := os.Getenv("REPO")
	if repo == "" {
		repo = "/repo"
	}
	sc, err := defs.Load(repo)
	if err != nil {
		ev.InfraError("%v", err)
	}
	reg := defs.BuildRegistry(sc)
	if len(os.Args) == 3 && os.Args[1] == "--replay" {
		replay(reg, os.Args[2])
		return
	}
	thorough := ev.Thorough()
	if pf := os.Getenv("VERIF_C16_PROF"); pf != "" {
		f, _ := os.Create(pf)
		pprof.StartCPUProfile(f)
		defer pprof.StopCPUProfile()
	}

	r := ev.New("C16", "exploration")
	r.Rule("every kmsg decoder (ReadFrom and UnsafeReadFrom of every request/response through RequestForKey/ResponseForKey 0..MaxKey, every stand-alone embedded type, hand written Record and StickyMemberMetadata) at min and max version (quick) / every version (thorough) on: (a) all 65,793 byte strings of length <= 2 (thorough: all strings of length 3 for the 30 types with the fewest fields at their min and max version, see three_byte_rule); (b) every proper prefix of the reference encodings of the two C15 base valuations (all-default, all-populated); (c) every single-byte substitution from {00,01,7f,80,fe,ff} at every position of those encodings; (d) allocation pass, one goroutine: every byte of every length prefix (array/string/bytes length, tag count, tag size, struct marker) of those encodings replaced by 7f/fe/ff and every whole prefix replaced by a ladder of claims 0x7f, 0xff, 0xfff .. 0x7fffffff (and the negative extremes), smallest claim first; the same inputs also go through the panic and round-trip oracles; (e) every arm of the unrolled varint/varlong decoders: in the reference encodings of the two bases and of values that need each byte count in every varint/varlong field, every variable-length integer (compact lengths, tag keys/counts/sizes, varint lengths, varint/varlong values) is rewritten to every encodable length (same value padded to 2..5 / 2..10 bytes, maximal length with an overflowing last byte, max+1 continuation bytes); each rewrite is run whole, at every strict prefix that reaches into or past the rewritten integer and with the continuation bit flipped at every position (encodings above 400 bytes, and in the quick tier all generated types: prefixes up to 8 bytes past the integer, flips inside it; Record, RecordBatch, MessageV0/V1, Header and StickyMemberMetadata always in full); encodings with real 64/8192-byte payloads behind 2/3-byte varint lengths get all prefixes and site flips; the public copy pkg/kbin is additionally driven directly (Uvarint, Varint, Varlong and the Reader methods on every prefix of k continuation bytes + terminal byte, k=0..11). Distinct = (type, version, stage, decoder, outcome) classes; distinct structured inputs counted separately")
	r.Assume("allocation is measured as runtime.MemStats.TotalAlloc delta around one decode while no other goroutine of the process runs harness code; a measurement above the bound is repeated three times and the minimum is used",
		"bound: delta <= 1 KiB * len(input) + 64 KiB (DESIGN.md C16)",
		"equality after re-encode/re-decode uses the C15 normalisation (nil == empty only where the field is not nullable at that version), floats by bit pattern",
		"a successful decode never returns a value whose canonical encoding is longer than the input (kmsg.Request/Response.ReadFrom: 'This should return an error if too little data is input'); this is how a decoder that drops its final Complete() check shows up",
		"decode time is not part of the property: see note_decode_time")

	var mu sync.Mutex
	reported := map[string]bool{}
	report := func(p problem) {
		mu.Lock()
		defer mu.Unlock()
		if reported[p.Key] {
			return
		}
		reported[p.Key] = true
		r.Violation(p.Key, p.What, p.Artefact)
	}

	// Select units. Types whose version is not given from outside (version
	// field in the bytes, or no version at all) need the blind sweeps (a)
	// only once.
	byType := map[string][]*defs.Unit{}
	var typeNames []string
	for _, u := range reg.Units {
		if byType[u.Name] == nil {
			typeNames = append(typeNames, u.Name)
		}
		byType[u.Name] = append(byType[u.Name], u)
	}
	sort.Strings(typeNames)
	var units []*defs.Unit      // for (b), (c), (d)
	var sweepUnits []*defs.Unit // for (a)
	for _, n := range typeNames {
		us := byType[n]
		pick := us
		if !thorough && len(us) > 2 {
			pick = []*defs.Unit{us[0], us[len(us)-1]}
		}
		units = append(units, pick...)
		if us[0].S.TopLevel {
			sweepUnits = append(sweepUnits, pick...)
		} else {
			sweepUnits = append(sweepUnits, us[0])
		}
	}

	phase := map[string]float64{}
	t0 := time.Now()
	lap := func(name string) { phase[name] = time.Since(t0).Seconds(); t0 = time.Now() }

	// ---- (d) allocation pass, single goroutine, before any worker starts.
	// Inputs of one prefix are ordered by claimed length; the pass (and the
	// check) stops at the first violation, because with a missing clamp the
	// larger claims would try to allocate gigabytes.
	var allocEvals, allocMax, tagcountSkipped int64
	var allocMaxAt string
	allocViolated := false
	modes := []bool{false}
	if thorough {
		modes = []bool{false, true}
	}
alloc:
	for _, u := range units {
		for _, e := range baseEncodings(u) {
			for _, m := range e.Marks {
				hs, sk := hugeInputs(e, m)
				tagcountSkipped += int64(sk)
				for _, h := range hs {
					for _, unsafe := range modes {
						allocEvals++
						d, pan := allocDelta(u, h.in, unsafe)
						if pan != nil {
							continue // the panic oracle of the parallel part reports it
						}
						bound := uint64(allocPerByte*len(h.in) + allocSlack)
						for k := 0; k < 3 && d > bound; k++ {
							if d2, _ := allocDelta(u, h.in, unsafe); d2 < d {
								d = d2
							}
						}
						if int64(d) > allocMax {
							allocMax, allocMaxAt = int64(d), fmt.Sprintf("%s %s (%d bytes in)", u, h.what, len(h.in))
						}
						if d > bound {
							mode := "ReadFrom"
							if unsafe {
								mode = "UnsafeReadFrom"
							}
							report(problem{u.Name + ":alloc", fmt.Sprintf("%s v%d %s allocates %d bytes for a %d-byte input (bound %d): %s claims %d, input %s", u.Name, u.Version, mode, d, len(h.in), bound, h.what, h.claim, hexCap(h.in)),
								map[string]any{"type": u.Name, "version": u.Version, "mode": mode, "stage": "alloc", "kind": "alloc", "input_hex": hexCap(h.in), "input_len": len(h.in), "allocated": d, "bound": bound, "mutation": h.what, "claimed": h.claim}})
							allocViolated = true
							break alloc
						}
					}
				}
			}
		}
	}
	r.Evals(allocEvals)
	lap("allocation_pass")
	r.Set("allocation_pass_evaluations", allocEvals)
	r.Set("allocation_pass_max_bytes", allocMax)
	r.Set("allocation_pass_max_at", allocMaxAt)
	if allocViolated {
		r.NotExhaustive("stopped at the first allocation violation: with an unclamped length the remaining inputs would ask the runtime for gigabytes")
		r.Set("phase_seconds", phase)
		r.Finish()
	}

	// ---- parallel part
	type job func(cn *counters)
	jobs := make(chan job, 64)
	var wg sync.WaitGroup
	var total counters
	var structured int64
	outcomes := map[string]struct{}{}
	for w := 0; w < ev.Workers(); w++ {
		wg.Add(1)
		go func() {
			defer wg.Done()
			for j := range jobs {
				var cn counters
				j(&cn)
				atomic.AddInt64(&total.evals, cn.evals)
				atomic.AddInt64(&total.ok, cn.ok)
				atomic.AddInt64(&total.rt, cn.rt)
				r.Evals(cn.evals)
			}
		}()
	}
	note := func(u *defs.Unit, stage string, before counters, cn *counters) {
		mu.Lock()
		if cn.ok > before.ok {
			outcomes[fmt.Sprintf("%s/%s/ok", u, stage)] = struct{}{}
		}
		if cn.evals-before.evals > cn.ok-before.ok {
			outcomes[fmt.Sprintf("%s/%s/error", u, stage)] = struct{}{}
		}
		mu.Unlock()
	}

	// (b) + (c) + panic/round-trip oracles on the (d) inputs
	for _, u := range units {
		u := u
		jobs <- func(cn *counters) {
			inst := u.NewInst()
			seen := map[uint64]struct{}{}
			run := func(stage string, in []byte) {
				h := fnv.New64a()
				h.Write(in)
				seen[h.Sum64()] = struct{}{}
				try(u, inst, stage, in, false, cn, report)
				try(u, inst, stage, in, true, cn, report)
			}
			for _, e := range baseEncodings(u) {
				b0 := *cn
				run("valid", e.B)
				if cn.ok-b0.ok != 2 {
					report(problem{u.Name + ":valid-rejected", fmt.Sprintf("%s v%d rejects (or panics on) the reference encoding of a base valuation: %s", u.Name, u.Version, hexCap(e.B)),
						map[string]any{"type": u.Name, "version": u.Version, "mode": "ReadFrom", "stage": "valid", "kind": "valid-rejected", "input_hex": hexCap(e.B)}})
				}
				b0 = *cn
				for n := 0; n < len(e.B); n++ {
					run("truncation", e.B[:n:n])
				}
				note(u, "truncation", b0, cn)
				b0 = *cn
				tagAt := map[int]bool{} // offsets of tag counts: claims above maxTagCountClaim are left out
				for _, m := range e.Marks {
					if m.What == "tagcount" {
						tagAt[m.Off] = true
					}
				}
				for i := range e.B {
					for _, s := range subs {
						if e.B[i] == s {
							continue
						}
						in := append([]byte{}, e.B...)
						in[i] = s
						if tagAt[i] && claim(in, i, "uvarint") > maxTagCountClaim {
							atomic.AddInt64(&tagcountSkipped, 1)
							continue
						}
						run("substitution", in)
					}
				}
				note(u, "substitution", b0, cn)
				b0 = *cn
				for _, m := range e.Marks {
					hs, _ := hugeInputs(e, m)
					for _, h := range hs {
						run("huge-length", h.in)
					}
				}
				note(u, "huge-length", b0, cn)
			}
			atomic.AddInt64(&structured, int64(len(seen)))
		}
	}

	// (e) every arm of the unrolled varint decoders, reached through the types
	var armVariantsRun, armInputs, armBig, armSkipped int64
	for _, u := range units {
		u := u
		jobs <- func(cn *counters) {
			inst := u.NewInst()
			b0 := *cn
			var nIn int64
			// A continuation-bit flip or a cut can shift the parse so that any
			// later offset is read as a tag count, and a claimed count is
			// iterated even after the input is exhausted (note_decode_time).
			// In units that have a tag section, inputs in which some offset
			// reads as a uvarint above 2^20 are therefore left out. Reference
			// encodings never contain one (their payload bytes are < 0x80);
			// only the synthetic 0xff runs and 0x7f terminators do.
			guard := u.S.FlexibleAt >= 0 && (!u.S.TopLevel || u.S.FlexibleIn(u.Version))
			run := func(in []byte) {
				if guard {
					for o := range in {
						if in[o] >= 0x80 && shiftedCount(in, o) > armMaxShiftedClaim {
							atomic.AddInt64(&armSkipped, 1)
							return
						}
					}
				}
				nIn++
				try(u, inst, "varint-arms", in, false, cn, report)
				try(u, inst, "varint-arms", in, true, cn, report)
			}
			flip := func(in []byte, i int) {
				f := append([]byte{}, in...)
				f[i] ^= 0x80
				run(f)
			}
			small, big := armBases(u)
			handWritten := !u.S.TopLevel && !u.S.WithVersionField // Record, RecordBatch, MessageV0/V1, Header, StickyMemberMetadata
			for _, e := range small {
				for _, m := range e.Sites {
					for _, v := range armVariants(e.B, m, guard) {
						atomic.AddInt64(&armVariantsRun, 1)
						run(v.in)
						// prefixes up to the site are prefixes of the base: stage (b)
						hi, flo, fhi := len(v.in), 0, len(v.in)
						if len(v.in) > armFullLimit || !(thorough || handWritten) {
							hi, flo, fhi = min(len(v.in), v.off+v.n+9), v.off, v.off+v.n
						}
						for n := v.off + 1; n < hi; n++ {
							run(v.in[:n:n])
						}
						for i := flo; i < fhi; i++ {
							flip(v.in, i)
						}
					}
				}
			}
			for _, e := range big {
				atomic.AddInt64(&armBig, 1)
				run(e.B)
				for n := 0; n < len(e.B); n++ {
					run(e.B[:n:n])
				}
				for _, m := range e.Sites {
					for i := m.Off; i < m.Off+m.Len; i++ {
						flip(e.B, i)
					}
				}
			}
			atomic.AddInt64(&armInputs, nIn)
			note(u, "varint-arms", b0, cn)
		}
	}
	var kbinEvals int64
	jobs <- func(cn *counters) { kbinEvals = kbinDirect(report); cn.evals += kbinEvals }

	// (a) all byte strings of length <= 2
	for _, u := range sweepUnits {
		u := u
		jobs <- func(cn *counters) {
			inst := u.NewInst()
			b0 := *cn
			var buf [2]byte
			for _, unsafe := range []bool{false, true} {
				try(u, inst, "len0", buf[:0], unsafe, cn, report)
				for a := 0; a < 256; a++ {
					buf[0] = byte(a)
					try(u, inst, "len1", buf[:1], unsafe, cn, report)
				}
				for a := 0; a < 256; a++ {
					for b := 0; b < 256; b++ {
						buf[0], buf[1] = byte(a), byte(b)
						try(u, inst, "len2", buf[:2], unsafe, cn, report)
					}
				}
			}
			note(u, "len<=2", b0, cn)
		}
	}

	// (a3) thorough: all strings of length 3 for the 30 smallest types
	var smallNames, excludedUnits []string
	var excluded3 int64
	threeByteUnits := 0
	if thorough {
		type ts struct {
			n string
			p int
		}
		var l []ts
		for _, n := range typeNames {
			l = append(l, ts{n, len(defs.Paths(byType[n][0].S))})
		}
		sort.SliceStable(l, func(i, j int) bool { return l[i].p < l[j].p })
		small := map[string]bool{}
		for _, t := range l[:30] {
			small[t.n] = true
			smallNames = append(smallNames, fmt.Sprintf("%s(%d)", t.n, t.p))
		}
		for _, u := range sweepUnits {
			if us := byType[u.Name]; !small[u.Name] || (u != us[0] && u != us[len(us)-1]) {
				continue // 3-byte strings: min and max version of the 30 types
			}
			u := u
			threeByteUnits++
			tc := leadingTagCount(u)
			if tc >= 0 {
				excludedUnits = append(excludedUnits, fmt.Sprintf("%s@%d", u, tc))
			}
			for a := 0; a < 256; a += 16 {
				a0 := a
				jobs <- func(cn *counters) {
					inst := u.NewInst()
					b0 := *cn
					in := make([]byte, 3)
					for a := a0; a < a0+16; a++ {
						for b := 0; b < 256; b++ {
							if (tc == 0 && a >= 0x80) || (tc == 1 && b >= 0x80) {
								// three_byte_rule: see evidence
								atomic.AddInt64(&excluded3, 2*256)
								continue
							}
							for c := 0; c < 256; c++ {
								in[0], in[1], in[2] = byte(a), byte(b), byte(c)
								try(u, inst, "len3", in, false, cn, report)
								try(u, inst, "len3", in, true, cn, report)
							}
						}
					}
					note(u, "len3", b0, cn)
				}
			}
		}
	}
	close(jobs)
	wg.Wait()
	lap("parallel_part")
	r.Set("varint_arm_variants", armVariantsRun)
	r.Set("varint_arm_inputs", armInputs)
	r.Set("varint_arm_inputs_left_out_shifted_tag_count_above_2^20", armSkipped)
	r.Set("varint_arm_big_payload_encodings", armBig)
	r.Set("kbin_direct_evaluations", kbinEvals)
	if a, e1 := os.ReadFile(repo + "/pkg/kbin/primitives.go"); e1 == nil {
		b, e2 := os.ReadFile(repo + "/pkg/kmsg/internal/kbin/primitives.go")
		r.Set("kbin_copies_identical", e2 == nil && string(a) == string(b))
	}
	r.Set("phase_seconds", phase)
	r.Set("tag_count_claims_above_16383_left_out", tagcountSkipped)

	for k := range outcomes {
		r.Distinct(k)
	}
	r.Sample(map[string]any{"stage": "allocation pass", "largest_allocation_seen_bytes": allocMax, "at": allocMaxAt})
	for i, u := range units {
		if i%211 == 0 {
			for _, e := range baseEncodings(u) {
				r.Sample(map[string]any{"type": u.Name, "version": u.Version, "base_encoding_hex": hexCap(e.B), "length_prefix_positions": len(e.Marks)})
				break
			}
		}
	}
	sort.Strings(reg.Uncovered)
	if reg.Uncovered == nil {
		reg.Uncovered = []string{}
	}
	r.Set("types_covered", reg.Types)
	r.Set("type_versions_structured", len(units))
	r.Set("type_versions_blind_sweep", len(sweepUnits))
	r.Set("uncovered_types", reg.Uncovered)
	r.Set("decoders", "ReadFrom + UnsafeReadFrom of every registry type; kmsg has no multi-record reader (the record/message-set loops live unexported in pkg/kgo/source.go and are outside this property's anchors); MessageV0, MessageV1, Record, RecordBatch, Header and StickyMemberMetadata are units of the registry")
	r.Set("successful_decodes_round_tripped", total.rt)
	r.Set("distinct_structured_inputs", structured)
	if thorough {
		r.Set("three_byte_types", smallNames)
		r.Set("three_byte_inputs_excluded", excluded3)
		r.Set("three_byte_units_with_exclusion", excludedUnits)
		r.Set("three_byte_rule", "units whose layout at that version puts the tag-section count at a fixed offset 0 or 1 (no field, or one 1-byte field, before it; listed as unit@offset) leave out the 3-byte inputs whose byte at that offset has the high bit set: the count is then a multi-byte uvarint that the decoder iterates even after the input is exhausted (see note_decode_time), 10^2..10^4 s per unit without reaching new code; every other 3-byte string is run")
	}
	r.Set("note_decode_time", "not a violation of C16 as stated (time is not in the statement): internalReadTags (api.go) and the generated tag loops run `for n := b.Uvarint(); n > 0; n--` without testing b.Ok(), so a 5-byte body ff ff ff ff 0f in a flexible struct without defined tags spins 2^32-1 iterations before returning ErrNotEnoughData; memory stays constant")
	r.Set("bound_completed", map[string]any{"len<=2": "all units of the blind sweep", "len3": fmt.Sprintf("%d types, min and max version: %d units", len(smallNames), threeByteUnits), "truncations+substitutions": "both base valuations of all structured units", "alloc_bound": "1KiB*len+64KiB"})
	if len(reg.Uncovered) > 0 {
		r.NotExhaustive(fmt.Sprintf("%d types could not be driven, see uncovered_types", len(reg.Uncovered)))
	}
	for _, m := range reg.Mismatches {
		ev.InfraError("definitions and pkg/kmsg disagree (C15 reports this as a violation): %s", m)
	}
	pprof.StopCPUProfile()
	r.Finish()
}

func replay(reg *defs.Registry, path string) {
	b, err := os.ReadFile(path)
	if err != nil {
		ev.InfraError("%v", err)
	}
	var f struct {
		Artefact struct {
			Type    string `json:"type"`
			Version int    `json:"version"`
			Mode    string `json:"mode"`
			Kind    string `json:"kind"`
			Hex     string `json:"input_hex"`
		} `json:"artefact"`
	}
	if err := json.Unmarshal(b, &f); err != nil {
		ev.InfraError("%v", err)
	}
	in, err := hex.DecodeString(f.Artefact.Hex)
	if err != nil {
		ev.InfraError("artefact input was truncated for display: %v", err)
	}
	for _, u := range reg.Units {
		if u.Name != f.Artefact.Type || u.Version != f.Artefact.Version {
			continue
		}
		unsafe := f.Artefact.Mode == "UnsafeReadFrom"
		bad := false
		if f.Artefact.Kind == "alloc" {
			d, _ := allocDelta(u, in, unsafe)
			bound := uint64(allocPerByte*len(in) + allocSlack)
			fmt.Printf("REPLAY: allocated %d bytes, bound %d\n", d, bound)
			bad = d > bound
		}
		var cn counters
		try(u, u.NewInst(), "replay", in, unsafe, &cn, func(p problem) { bad = true; fmt.Println("REPLAY:", p.What) })
		if f.Artefact.Kind == "valid-rejected" && cn.ok == 0 {
			bad = true
			fmt.Println("REPLAY: valid encoding still rejected")
		}
		if bad {
			fmt.Println("REPLAY: still violated")
			os.Exit(1)
		}
		fmt.Println("REPLAY: holds")
		return
	}
	ev.InfraError("no unit %s v%d", f.Artefact.Type, f.Artefact.Version)
}
