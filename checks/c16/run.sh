#!/bin/bash
set -eu
cd "$(dirname "$0")/../.."
. bin/env.sh                      # sets REPO, BUILD, GOFLAGS, VERIF_TIER, VERIF_WORKERS
go build -o "$BUILD/c16" ./checks/c16
exec "$BUILD/c16" "$@"
