#!/bin/bash
# C19: compression round-trips and decompression is bounded.
# usage: run.sh [--replay <violation artefact json>]
set -eu
cd "$(dirname "$0")/../.."
. bin/env.sh
if [ "${1:-}" = "--replay" ]; then
  export VERIF_REPLAY="$(readlink -f "$2")"
fi
# shared machine: bound the build's parallelism (VERIF_BUILD_P overrides)
inpkg_test pkg/kgo "$VERIF_ROOT/hooks/inpkg/c19_kgo_test.go" "$BUILD/c19_kgo.test" -p "${VERIF_BUILD_P:-4}" || { echo "INFRA-ERROR: build failed" >&2; exit 2; }
exec "$BUILD/c19_kgo.test" -test.run '^TestVerifC19$' -test.timeout 0
