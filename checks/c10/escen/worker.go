package escen

import (
	"testing"
	"time"

	"verif.local/ev"

	"verif/lib/explore"
	"verif/lib/netctl"
	"verif/lib/nrun"
)

// ServeWorker replaces nrun's worker loop (same protocol) with one that is
// more tolerant of the nondeterminism engine N does not own (kfake map
// iteration order when it answers several members at once, timers due at the
// same virtual instant, goroutine order inside one event):
//
//   - a replayed prefix that diverges is retried up to 16 times or 4 s of
//     wall time (nrun: 3 times); a diverging replay stops at the first
//     mismatching decision point, so a retry is cheap;
//   - an execution that will be the parent of further jobs (its cost is below
//     the budget) is run up to five times and the most frequent schedule is
//     reported, so that a rarely taken order does not become the parent of a
//     whole subtree of jobs that then diverge. Any run with a violation is
//     reported as is.
func ServeWorker(t *testing.T, plans []nrun.Plan) {
	by := map[string]*netctl.Scenario{}
	budget := map[string]int{}
	for _, p := range plans {
		by[p.Scenario.Name] = p.Scenario
		budget[p.Scenario.Name] = p.QuickBudget
		if ev.Thorough() {
			budget[p.Scenario.Name] = p.ThoroughBudget
		}
	}
	explore.ServeWorker(func(job explore.Job) explore.Result {
		sc := by[job.Scenario]
		if sc == nil {
			return explore.Result{Crash: "unknown scenario " + job.Scenario}
		}
		run := func() explore.Result {
			start := time.Now()
			res := netctl.Run(t, sc, job)
			for try := 0; res.Diverged && try < 15 && time.Since(start) < 4*time.Second; try++ {
				res = netctl.Run(t, sc, job)
			}
			return res
		}
		res := run()
		if job.Scenario == "EG" {
			// every member of the generated family is a cost-0 job: re-running
			// each of them to vote on a schedule would multiply the family
			return res
		}
		if job.Cost >= budget[job.Scenario] || res.Diverged || len(res.Viol) > 0 || res.Crash != "" {
			return res
		}
		// Parent of further jobs: report the most frequent schedule of up to
		// five runs (eleven for the root), stopping early once one schedule
		// clearly leads.
		seen := []explore.Result{res}
		votes := []int{1}
		runs, enough := 5, 3
		if job.Cost == 0 { // the root schedule is the prefix of every other job
			runs, enough = 11, 5
		}
		for n := 1; n < runs; n++ {
			r := run()
			if len(r.Viol) > 0 || r.Crash != "" {
				return r
			}
			if r.Diverged {
				continue
			}
			found := false
			for i := range seen {
				if sameSchedule(seen[i], r) {
					votes[i]++
					found = true
					if votes[i] >= enough {
						return seen[i]
					}
				}
			}
			if !found {
				seen = append(seen, r)
				votes = append(votes, 1)
			}
		}
		best := 0
		for i := range seen {
			if votes[i] > votes[best] {
				best = i
			}
		}
		return seen[best]
	})
}

func sameSchedule(a, b explore.Result) bool {
	if a.Diverged || b.Diverged || len(a.Points) != len(b.Points) {
		return false
	}
	for i := range a.Points {
		pa, pb := a.Points[i], b.Points[i]
		if pa.Chosen != pb.Chosen || len(pa.Labels) != len(pb.Labels) {
			return false
		}
		for j := range pa.Labels {
			if pa.Labels[j] != pb.Labels[j] {
				return false
			}
		}
	}
	return true
}
