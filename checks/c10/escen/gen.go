package escen

import (
	"context"
	"fmt"
	"strings"
	"sync"
	"time"

	"github.com/twmb/franz-go/pkg/kfake"
	"github.com/twmb/franz-go/pkg/kgo"
	"github.com/twmb/franz-go/pkg/kmsg"

	"verif.local/ev"

	"verif/lib/explore"
	"verif/lib/netctl"
	"verif/lib/nrun"
	"verif/lib/nscen"
)

// Generated family EG: instead of one fixed application loop per scenario, ONE
// scenario whose Setup lets the explorer choose (cost 0: every combination is
// executed at every deviation level)
//
//	cfg   broker KIP-890p2 | TV1  x  balancer cooperative-sticky | range (eager)
//	      (thorough: also without the RequireStableFetchOffsets option, which this
//	      tree documents as a no-op); transaction timeout 6 s everywhere; plus two
//	      short-session configurations (KIP-890p2, both balancers): session timeout
//	      2.5 s and env = the broker holds the EndTxn(commit) of A's first
//	      (thorough: first | second) committing transaction for 4 s, so that A is
//	      removed from the group while its transactional offset commit is pending
//	      and B (five rounds there) inherits the partition inside that window,
//	sA    member A's script: one or two ROUNDS, each
//	        PollRecords(n), [think], Begin, Produce one output per polled record,
//	        [think], Flush, [think], End(TryCommit | TryAbort), [think]
//	      (Begin..End skipped when the poll returned nothing), round = 4 characters:
//	        n      2 (thorough: 2 | 3: a batch then spans both input partitions)
//	        think  where the application spends time: - nowhere | B between the poll
//	               and Begin | I inside the transaction after the produces | F after
//	               Flush, before End | E after End, before the next poll
//	        dur    h 1.37 s (longer than the heartbeat interval: a rebalance started
//	               by the other member lands inside it) | T 8 s (longer than the
//	               transaction timeout; only inside the transaction: I, F)
//	        end    c End(TryCommit) | a End(TryAbort)
//	      then fin: X Close (A leaves) | S stay a silent member (thorough only),
//	gate  when member B (three plain rounds PollRecords(2)/Begin/Produce/Flush/
//	      End(TryCommit)) is created: at the start | after A's first poll returned |
//	      after A's second poll returned | never (thorough: also after A finished).
//	      B is declared first, so on the default schedule it joins as soon as the
//	      gate opens and the rebalance it causes lands in A's next think time.
//
// A member stops (Close) when Begin or End returns an error, as the End
// documentation demands. The oracle is the one of the ETL family, which does
// not depend on the script: an uncontrolled member of the same group drains
// what is left (aborted or unpolled input is re-delivered), then the
// read_committed view of "out" must hold every input identity exactly once.

const (
	genTxnTimeout = 6 * time.Second
	genThinkH     = 1370 * time.Millisecond
	genThinkT     = 8 * time.Second
)

type gcfg struct {
	name     string
	tv1      bool
	coop     bool
	noStable bool
	// shortSess: session timeout 2.5 s (heartbeat 0.5 s, rebalance timeout 4 s)
	// and a slow coordinator: the broker holds the EndTxn(commit) of one of A's
	// transactions for 4 s before handling it (env choice), longer than the
	// session timeout, so A is removed from the group without its cooperation
	// while its transactional offset commit is pending; the only protection of
	// the next owner in that window is RequireStable on its OffsetFetch.
	shortSess bool
}

const (
	genShortSession = 2500 * time.Millisecond
	genEndTxnStall  = 4 * time.Second
)

func genCfgs(full bool) []gcfg {
	out := []gcfg{
		{name: "tv2-coop", coop: true},
		{name: "tv2-eager"},
		{name: "tv1-coop", tv1: true, coop: true},
		{name: "tv1-eager", tv1: true},
		{name: "tv2-coop-ss", coop: true, shortSess: true},
		{name: "tv2-eager-ss", shortSess: true},
	}
	if full {
		out = append(out, gcfg{name: "tv2-coop-nostable", coop: true, noStable: true})
	}
	return out
}

func genRounds(full bool) []string {
	ns := "2"
	if full {
		ns = "23"
	}
	var out []string
	for _, n := range ns {
		for _, th := range []string{"--", "Bh", "Ih", "Fh", "Eh", "IT", "FT"} {
			for _, e := range "ca" {
				out = append(out, string(n)+th+string(e))
			}
		}
	}
	return out
}

func genScriptsA(full bool) []string {
	rs := genRounds(full)
	out := append([]string{}, rs...)
	for _, a := range rs {
		for _, b := range rs {
			if a[0] != b[0] {
				continue // one poll size per script
			}
			out = append(out, a+"."+b)
		}
	}
	return out
}

func genSessionOpts(cfg gcfg, name string) []kgo.Opt {
	bal := kgo.RangeBalancer()
	if cfg.coop {
		bal = kgo.CooperativeStickyBalancer()
	}
	hb := time.Second
	if name == "B" {
		hb = 1100 * time.Millisecond
	}
	opts := []kgo.Opt{
		kgo.ConsumerGroup(group),
		kgo.ConsumeTopics(inTopic),
		kgo.ConsumeResetOffset(kgo.NewOffset().AtStart()),
		kgo.TransactionalID("tx-" + name),
		kgo.TransactionTimeout(genTxnTimeout),
		kgo.FetchIsolationLevel(kgo.ReadCommitted()),
		kgo.Balancers(bal),
		kgo.SessionTimeout(2 * time.Minute),
		kgo.RebalanceTimeout(30 * time.Second),
		kgo.HeartbeatInterval(hb),
		kgo.FetchMaxWait(1130 * time.Millisecond),
		kgo.RecordPartitioner(kgo.ManualPartitioner()),
		kgo.ProducerLinger(0),
		kgo.ProduceRequestTimeout(5 * time.Second),
	}
	if !cfg.noStable {
		opts = append(opts, kgo.RequireStableFetchOffsets())
	}
	if cfg.shortSess {
		opts = append(opts,
			kgo.SessionTimeout(genShortSession),
			kgo.HeartbeatInterval(hb/2),
			kgo.RebalanceTimeout(4*time.Second),
			kgo.RequestTimeoutOverhead(10*time.Second), // the client must outwait the slow EndTxn
		)
	}
	return opts
}

// genRound runs one generated round; false: the member must stop.
func genRound(st *state, name string, s *kgo.GroupTransactSession, t *netctl.Thread, r string, polled func()) bool {
	n := int(r[0] - '0')
	think := func(at byte) {
		if r[1] != at {
			return
		}
		if r[2] == 'T' {
			time.Sleep(genThinkT)
		} else {
			time.Sleep(genThinkH)
		}
	}
	t.Step("poll")
	ctx, cancel := context.WithTimeout(context.Background(), 2170*time.Millisecond)
	fs := s.PollRecords(ctx, n)
	cancel()
	polled()
	var recs []*kgo.Record
	fs.EachRecord(func(rec *kgo.Record) { recs = append(recs, rec) })
	if len(recs) == 0 {
		return true
	}
	think('B')
	t.Step("begin")
	if err := s.Begin(); err != nil {
		st.mu.Lock()
		st.ends = append(st.ends, endRes{member: name, err: fmt.Errorf("begin: %w", err)})
		st.mu.Unlock()
		return false
	}
	var pmu sync.Mutex
	var perr error
	res := endRes{member: name}
	for _, rec := range recs {
		id := string(rec.Value)
		res.ids = append(res.ids, id)
		t.Step("produce")
		s.Produce(context.Background(), &kgo.Record{Topic: outTopic, Partition: 0, Value: []byte(id)}, func(_ *kgo.Record, err error) {
			pmu.Lock()
			if err != nil && perr == nil {
				perr = err
			}
			pmu.Unlock()
		})
	}
	think('I')
	t.Step("flush")
	fctx, fcancel := context.WithTimeout(context.Background(), 60*time.Second)
	ferr := s.Client().Flush(fctx)
	fcancel()
	think('F')
	pmu.Lock()
	res.commit = r[3] == 'c' && ferr == nil && perr == nil
	pmu.Unlock()
	t.Step("end")
	ectx, ecancel := context.WithTimeout(context.Background(), 90*time.Second)
	res.committed, res.err = s.End(ectx, kgo.TransactionEndTry(res.commit))
	ecancel()
	st.mu.Lock()
	st.ends = append(st.ends, res)
	st.mu.Unlock()
	if res.err != nil {
		return false
	}
	think('E')
	return true
}

func genGates(full bool) []string {
	out := []string{"start", "poll0", "poll1", "never"}
	if full {
		out = append(out, "end")
	}
	return out
}

func genScenario() *netctl.Scenario {
	return &netctl.Scenario{
		Name:      "EG",
		Faults:    faults,
		Horizon:   5 * time.Minute,
		MaxPoints: 1200,
		Setup: func(x *netctl.Exec) {
			full := ev.Thorough()
			cfgs, scripts, gatesL := genCfgs(full), genScriptsA(full), genGates(full)
			var cfgNames []string
			for _, c := range cfgs {
				cfgNames = append(cfgNames, c.name)
			}
			fins := []string{"X"}
			bfirst := []string{"2--c"}
			if full {
				fins = []string{"X", "S"}
				bfirst = []string{"2--c", "2Ihc"}
			}
			cfg := cfgs[x.ChooseOf("cfg", cfgNames)]
			script := scripts[x.ChooseOf("sA", scripts)]
			fin := fins[x.ChooseOf("fin", fins)]
			gate := gatesL[x.ChooseOf("gate", gatesL)]
			b0 := bfirst[x.ChooseOf("sB", bfirst)]
			envs := []string{"-"}
			if cfg.shortSess {
				envs = []string{"slow-endtxn-A1"}
				if full {
					envs = append(envs, "slow-endtxn-A2")
				}
			}
			env := envs[x.ChooseOf("env", envs)]

			opts := []kfake.Opt{kfake.SeedTopics(nParts, inTopic), kfake.SeedTopics(1, outTopic)}
			if cfg.tv1 {
				opts = append(opts, kfake.MaxVersions(tv1Versions()))
			}
			if cfg.shortSess {
				opts = append(opts, kfake.GroupMinSessionTimeout(time.Second))
			}
			c := x.Cluster(1, opts...)
			if strings.HasPrefix(env, "slow-endtxn-A") {
				// slow coordinator: the k-th EndTxn(commit) of member A is held
				// for genEndTxnStall of virtual time before it is handled; all
				// other requests (other connections) keep being served.
				k, seen := int(env[len(env)-1]-'0'), 0
				c.ControlKey(int16(kmsg.EndTxn), func(kreq kmsg.Request) (kmsg.Response, error, bool) {
					if req := kreq.(*kmsg.EndTxnRequest); req.TransactionalID == "tx-A" && req.Commit {
						if seen++; seen == k {
							x.Count("endtxn_stalled", 1)
							c.SleepControl(func() { time.Sleep(genEndTxnStall) })
						}
					}
					return nil, nil, false
				})
			}
			// Wire statistic (not judged): OffsetFetch requests of the members
			// that do not carry RequireStable.
			x.FrameHook = func(conn *netctl.Conn, dir string, key, ver int16, frame []byte) {
				if key != 9 || dir != "req" {
					return
				}
				if req, _, ok := netctl.DecodeRequest(frame); ok && !req.(*kmsg.OffsetFetchRequest).RequireStable {
					x.Count("offsetfetch_without_require_stable", 1)
				}
			}
			st := &state{c: c, v: variant{name: "EG", coop: cfg.coop, tv1: cfg.tv1}, sess: map[string]*kgo.GroupTransactSession{}, closed: map[string]bool{}, aFirstEnd: make(chan struct{})}
			x.Data = st
			h := nscen.Helper(x, c, kgo.RecordPartitioner(kgo.ManualPartitioner()))
			var in []*kgo.Record
			for p := 0; p < nParts; p++ {
				for n := 0; n < perPart; n++ {
					in = append(in, &kgo.Record{Topic: inTopic, Partition: int32(p), Value: []byte(fmt.Sprintf("p%d-%d", p, n))})
				}
			}
			if err := h.ProduceSync(context.Background(), in...).FirstErr(); err != nil {
				panic(fmt.Sprintf("preload: %v", err))
			}
			h.Close()
			x.OnCleanup(func() {
				st.mu.Lock()
				st.down = true
				st.mu.Unlock()
				closeSession(st, "A")
				closeSession(st, "B")
			})
			st.optsB = append(nscen.BaseOpts(x, "B", c), genSessionOpts(cfg, "B")...)
			a := newControlled(st, "A", append(nscen.BaseOpts(x, "A", c), genSessionOpts(cfg, "A")...))

			gates := map[string]chan struct{}{}
			for _, g := range gatesL {
				gates[g] = make(chan struct{})
			}
			var once sync.Map
			open := func(name string) {
				if ch, ok := gates[name]; ok {
					if _, dup := once.LoadOrStore(name, true); !dup {
						close(ch)
					}
				}
			}
			// B first: once its gate is open its calls come before A's next one.
			if gate != "never" {
				st.threads = append(st.threads, x.Thread("B", func(t *netctl.Thread) {
					<-gates[gate]
					t.Step("join")
					b := newControlled(st, "B", st.optsB)
					if b == nil {
						return
					}
					rounds := []string{b0, "2--c", "2--c"}
					if cfg.shortSess {
						// B must still be polling when it inherits A's partitions
						rounds = append(rounds, "2--c", "2--c")
					}
					for _, r := range rounds {
						if !genRound(st, "B", b, t, r, func() {}) {
							t.Step("close")
							closeSession(st, "B")
							return
						}
					}
				}))
			}
			st.threads = append(st.threads, x.Thread("A", func(t *netctl.Thread) {
				open("start")
				stopped := false
				for i, r := range strings.Split(script, ".") {
					if !genRound(st, "A", a, t, r, func() { open(fmt.Sprintf("poll%d", i)) }) {
						stopped = true
						break
					}
				}
				if stopped || fin == "X" {
					t.Step("close")
					closeSession(st, "A")
				}
				// gates never reached (one-round scripts, early stop): B starts now
				open("poll0")
				open("poll1")
				open("end")
			}))
		},
		Final: final,
	}
}

// GenPlans returns the generated family: quick = 6 configurations x 210 scripts
// of A x 4 gates (5040) on the default schedule; thorough = 420 scripts x 2
// fins x 5 gates x 2 first rounds of B x (5 configurations + 2 short-session
// configurations x 2 stalled transactions) (75600) on the default schedule,
// then every single deviation, time-capped.
//
// The single deviations are restricted to the sub-family (any configuration,
// one-round scripts of A, A closing, B created after A's first poll, B plain):
// every execution is the parent of ~400 deviating jobs, and keeping those for
// all 42000 members would need tens of gigabytes in the explorer.
func GenPlans() []nrun.Plan {
	return []nrun.Plan{{Scenario: genScenario(), QuickBudget: 0, ThoroughBudget: 1, Weight: 4, Allow: genAllow}}
}

func genAllow(parent explore.Job, point int, label string, cost int) bool {
	if cost == 0 {
		return true
	}
	gate := "start"
	for _, l := range parent.Labels {
		switch {
		case strings.HasPrefix(l, "sA=") && strings.Contains(l, "."):
			return false
		case strings.HasPrefix(l, "fin=") && l != "fin=X":
			return false
		case strings.HasPrefix(l, "sB=") && l != "sB=2--c":
			return false
		case strings.HasPrefix(l, "gate="):
			gate = strings.TrimPrefix(l, "gate=")
		}
	}
	return gate == "poll0"
}
