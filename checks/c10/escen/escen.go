// Package escen holds the GroupTransactSession ETL scenario family (DESIGN.md §4 C10).
package escen

import (
	"context"
	"fmt"
	"os"
	"sort"
	"strings"
	"sync"
	"time"

	"github.com/twmb/franz-go/pkg/kadm"
	"github.com/twmb/franz-go/pkg/kfake"
	"github.com/twmb/franz-go/pkg/kgo"
	"github.com/twmb/franz-go/pkg/kversion"

	"verif.local/ev"

	"verif/lib/explore"
	"verif/lib/netctl"
	"verif/lib/nrun"
	"verif/lib/nscen"
)

// Scenario family ETL (DESIGN.md §4 C10): input topic "in" (2 partitions x 4
// records, values "p<partition>-<n>"), output topic "out" (1 partition), two
// controlled GroupTransactSession members A and B of group g. Each member
// loops: PollRecords(2) -> Begin -> Produce one output record per input record
// (value = input identity) -> 1.37 s of processing time -> Flush ->
// End(TryCommit, or TryAbort if a produce failed). B joins after A's first
// (eager) or second (cooperative) round, so that the rebalance lands inside
// A's next open transaction; A closes after its rounds.
// Afterwards an uncontrolled member of the same group drains what is left and
// the read_committed view of "out" must hold every input identity exactly once.

const (
	nParts    = 2
	perPart   = 4
	pollMax   = 2
	itersA    = 4
	itersB    = 3
	workTime  = 1370 * time.Millisecond // per-batch processing time inside the transaction
	group     = "g"
	inTopic   = "in"
	outTopic  = "out"
	txTimeout = 20 * time.Second
)

type variant struct {
	name      string
	coop      bool
	tv1       bool
	joinAfter int  // B is created after A's joinAfter-th round
	slowBegin bool // the application's processing time lies between the poll and Begin (a rebalance lands after the poll, before the transaction is open)
}

type endRes struct {
	member    string
	ids       []string
	commit    bool // what the application asked for
	committed bool
	err       error
}

type state struct {
	mu        sync.Mutex
	c         *kfake.Cluster
	v         variant
	sess      map[string]*kgo.GroupTransactSession
	closed    map[string]bool
	threads   []*netctl.Thread
	ends      []endRes
	aFirstEnd chan struct{}
	aOnce     sync.Once
	down      bool      // teardown started: no new clients, no cluster calls
	optsB     []kgo.Opt // built in Setup (kfake's ListenAddrs blocks forever once the cluster is closed)
}

func tv1Versions() *kversion.Versions {
	v := kversion.Stable()
	v.SetMaxKeyVersion(0, 11) // Produce < v12: explicit AddPartitionsToTxn, no transaction.version feature
	v.SetMaxKeyVersion(24, 3)
	v.SetMaxKeyVersion(26, 4) // EndTxn < v5
	v.SetMaxKeyVersion(28, 4) // TxnOffsetCommit < v5: explicit AddOffsetsToTxn
	return v
}

func sessionOpts(st *state, name string) []kgo.Opt {
	bal := kgo.RangeBalancer()
	if st.v.coop {
		bal = kgo.CooperativeStickyBalancer()
	}
	// Members heartbeat at different intervals: timers re-armed by the same
	// SyncGroup completion would otherwise fire at the same virtual instant in
	// an order nobody owns (replay divergence).
	hb := time.Second
	if name == "B" {
		hb = 1100 * time.Millisecond
	}
	return []kgo.Opt{
		kgo.ConsumerGroup(group),
		kgo.ConsumeTopics(inTopic),
		kgo.ConsumeResetOffset(kgo.NewOffset().AtStart()),
		kgo.TransactionalID("tx-" + name),
		kgo.TransactionTimeout(txTimeout),
		kgo.RequireStableFetchOffsets(),
		kgo.FetchIsolationLevel(kgo.ReadCommitted()),
		kgo.Balancers(bal),
		kgo.SessionTimeout(2 * time.Minute),
		kgo.RebalanceTimeout(30 * time.Second),
		kgo.HeartbeatInterval(hb),
		kgo.FetchMaxWait(1130 * time.Millisecond),
		kgo.RecordPartitioner(kgo.ManualPartitioner()),
		kgo.ProducerLinger(0),
		kgo.ProduceRequestTimeout(5 * time.Second),
	}
}

// newControlled creates a controlled member; nil once teardown has started.
func newControlled(st *state, name string, opts []kgo.Opt) *kgo.GroupTransactSession {
	st.mu.Lock()
	defer st.mu.Unlock()
	if st.down {
		return nil
	}
	s, err := kgo.NewGroupTransactSession(opts...)
	if err != nil {
		panic(fmt.Sprintf("NewGroupTransactSession(%s): %v", name, err))
	}
	st.sess[name] = s
	return s
}

func closeSession(st *state, name string) {
	st.mu.Lock()
	s, done := st.sess[name], st.closed[name]
	st.closed[name] = true
	st.mu.Unlock()
	if s != nil && !done {
		s.Close()
	}
}

// iterate runs one poll/transform/produce/End round; it reports the number
// of input records handled.
func iterate(st *state, name string, s *kgo.GroupTransactSession, step func(string)) int {
	step("poll")
	ctx, cancel := context.WithTimeout(context.Background(), 2170*time.Millisecond)
	fs := s.PollRecords(ctx, pollMax)
	cancel()
	var recs []*kgo.Record
	fs.EachRecord(func(r *kgo.Record) { recs = append(recs, r) })
	if len(recs) == 0 {
		return 0
	}
	if st.v.slowBegin {
		time.Sleep(workTime)
	}
	step("begin")
	if err := s.Begin(); err != nil {
		st.mu.Lock()
		st.ends = append(st.ends, endRes{member: name, err: fmt.Errorf("begin: %w", err)})
		st.mu.Unlock()
		return 0
	}
	var pmu sync.Mutex
	var perr error
	res := endRes{member: name}
	for _, r := range recs {
		id := string(r.Value)
		res.ids = append(res.ids, id)
		step("produce")
		s.Produce(context.Background(), &kgo.Record{Topic: outTopic, Partition: 0, Value: []byte(id)}, func(_ *kgo.Record, err error) {
			pmu.Lock()
			if err != nil && perr == nil {
				perr = err
			}
			pmu.Unlock()
		})
	}
	step("flush")
	if !st.v.slowBegin {
		time.Sleep(workTime) // the application's processing time; frames and timers keep flowing
	}
	fctx, fcancel := context.WithTimeout(context.Background(), 60*time.Second)
	ferr := s.Client().Flush(fctx)
	fcancel()
	pmu.Lock()
	res.commit = ferr == nil && perr == nil
	pmu.Unlock()
	step("end")
	ectx, ecancel := context.WithTimeout(context.Background(), 90*time.Second)
	res.committed, res.err = s.End(ectx, kgo.TransactionEndTry(res.commit))
	ecancel()
	st.mu.Lock()
	st.ends = append(st.ends, res)
	st.mu.Unlock()
	return len(recs)
}

func faults(x *netctl.Exec, dir string, key int16, c *netctl.Conn) []string {
	if dir == "resp" {
		switch key {
		case 0, 24, 25, 28, 26:
			return []string{"killafter"}
		}
		return nil
	}
	switch key {
	case 0:
		return []string{"killbefore"}
	case 24, 25, 28, 26:
		return []string{"killbefore", "err:51", "err:14"}
	}
	return nil
}

func scenario(v variant) *netctl.Scenario {
	return &netctl.Scenario{
		Name:      v.name,
		Faults:    faults,
		Horizon:   5 * time.Minute,
		MaxPoints: 1200,
		Setup: func(x *netctl.Exec) {
			opts := []kfake.Opt{kfake.SeedTopics(nParts, inTopic), kfake.SeedTopics(1, outTopic)}
			if v.tv1 {
				opts = append(opts, kfake.MaxVersions(tv1Versions()))
			}
			c := x.Cluster(1, opts...)
			st := &state{c: c, v: v, sess: map[string]*kgo.GroupTransactSession{}, closed: map[string]bool{}, aFirstEnd: make(chan struct{})}
			x.Data = st
			// Pre-load the input.
			h := nscen.Helper(x, c, kgo.RecordPartitioner(kgo.ManualPartitioner()))
			var in []*kgo.Record
			for p := 0; p < nParts; p++ {
				for n := 0; n < perPart; n++ {
					in = append(in, &kgo.Record{Topic: inTopic, Partition: int32(p), Value: []byte(fmt.Sprintf("p%d-%d", p, n))})
				}
			}
			if err := h.ProduceSync(context.Background(), in...).FirstErr(); err != nil {
				panic(fmt.Sprintf("preload: %v", err))
			}
			h.Close()
			x.OnCleanup(func() {
				st.mu.Lock()
				st.down = true
				st.mu.Unlock()
				closeSession(st, "A")
				closeSession(st, "B")
			})
			st.optsB = append(nscen.BaseOpts(x, "B", c), sessionOpts(st, "B")...)
			a := newControlled(st, "A", append(nscen.BaseOpts(x, "A", c), sessionOpts(st, "A")...))
			st.threads = append(st.threads, x.Thread("A", func(t *netctl.Thread) {
				for i := 0; i < itersA; i++ {
					iterate(st, "A", a, t.Step)
					if i+1 == v.joinAfter {
						st.aOnce.Do(func() { close(st.aFirstEnd) })
					}
				}
				t.Step("close")
				closeSession(st, "A")
			}))
			st.threads = append(st.threads, x.Thread("B", func(t *netctl.Thread) {
				<-st.aFirstEnd
				t.Step("join")
				b := newControlled(st, "B", st.optsB)
				for i := 0; b != nil && i < itersB; i++ {
					iterate(st, "B", b, t.Step)
				}
			}))
		},
		Final: final,
	}
}

func committedOffsets(adm *kadm.Client) (map[int32]int64, error) {
	ctx, cancel := context.WithTimeout(context.Background(), 20*time.Second)
	defer cancel()
	os, err := adm.FetchOffsets(ctx, group)
	if err != nil {
		return nil, err
	}
	out := map[int32]int64{}
	for p := int32(0); p < nParts; p++ {
		if o, ok := os.Lookup(inTopic, p); ok && o.Err == nil {
			out[p] = o.At
		} else {
			out[p] = -1
		}
	}
	return out, nil
}

func final(x *netctl.Exec) {
	st := x.Data.(*state)
	// Pass-through: let the controlled members finish their bounded loops.
	deadline := time.Now().Add(15 * time.Minute)
	allDone := func() bool {
		for _, t := range st.threads {
			if !t.Done() {
				return false
			}
		}
		return true
	}
	for !allDone() && time.Now().Before(deadline) {
		time.Sleep(200 * time.Millisecond)
	}
	appDone := allDone()
	if appDone {
		closeSession(st, "A")
		closeSession(st, "B")
	}
	// Drain what is left with a fresh, uncontrolled member of the same group.
	base := []kgo.Opt{
		kgo.SeedBrokers(st.c.ListenAddrs()...),
		kgo.Dialer(x.DirectDial),
		kgo.ClientID("H"),
		kgo.MetadataMinAge(100 * time.Millisecond),
		kgo.RetryBackoffFn(func(int) time.Duration { return 10 * time.Millisecond }),
		kgo.DisableClientMetrics(),
	}
	h, err := kgo.NewGroupTransactSession(append(base, sessionOpts(st, "H")...)...)
	if err != nil {
		x.Violate("harness:helper", "helper session: %v", err)
		return
	}
	plain := nscen.Helper(x, st.c)
	adm := kadm.NewClient(plain)
	finished := false
	var lastOffsets map[int32]int64
	var helperErrs []string
	drainDeadline := time.Now().Add(4 * time.Minute)
	for time.Now().Before(drainDeadline) {
		n := iterate(st, "H", h, func(string) {})
		if n > 0 {
			continue
		}
		offs, err := committedOffsets(adm)
		if err != nil {
			helperErrs = append(helperErrs, err.Error())
			continue
		}
		lastOffsets = offs
		finished = true
		for p := int32(0); p < nParts; p++ {
			if offs[p] != perPart {
				finished = false
			}
		}
		if finished {
			break
		}
	}
	h.Close()
	plain.Close()

	// read_committed view of the output.
	read := func() (visible, open []nscen.LogRecord) {
		return nscen.Committed(nscen.ReadRaw(x, st.c, outTopic, 0))
	}
	visible, open := read()
	for waited := 0; len(open) > 0 && waited < 12; waited++ {
		time.Sleep(5 * time.Second)
		visible, open = read()
	}
	count := map[string]int{}
	for _, r := range visible {
		count[r.Value]++
	}
	st.mu.Lock()
	defer st.mu.Unlock()
	var lost, dup []string
	for p := 0; p < nParts; p++ {
		for n := 0; n < perPart; n++ {
			id := fmt.Sprintf("p%d-%d", p, n)
			switch c := count[id]; {
			case c == 0:
				lost = append(lost, id)
			case c > 1:
				dup = append(dup, fmt.Sprintf("%sx%d", id, c))
			}
			delete(count, id)
		}
	}
	for v := range count {
		x.Violate("harness:unknown-output", "unexpected output record %q", v)
	}
	hist := history(st)
	if len(dup) > 0 {
		x.Violate("duplicate-output", "read_committed view of %s holds %v more than once; ends: %s", outTopic, dup, hist)
	}
	switch {
	case len(lost) > 0 && finished:
		x.Violate("lost-output", "group offsets are at the end of the input (%v) but the read_committed view of %s lacks %v; ends: %s", lastOffsets, outTopic, lost, hist)
	case !finished:
		x.Violate("not-finished", "a fresh member did not bring the group to the end of the input within 4 virtual minutes after the controlled members stopped (offsets %v, missing %v, controlled threads done=%v, helper errors %v); ends: %s", lastOffsets, lost, appDone, helperErrs, hist)
	}
	if len(open) > 0 {
		x.Count("open_after_timeout", 1)
	}
	obs := outcome(st)
	if !appDone {
		obs += " APP-NOT-DONE"
	}
	x.Observe("%s", obs)
	if os.Getenv("VERIF_OBSLOG") != "" {
		fmt.Fprintf(os.Stderr, "OBS %s\n", obs)
	}
}

func errClass(err error) string {
	if err == nil {
		return "nil"
	}
	return nscen.ErrClass(err)
}

// history is the full list of End results in order (for violation texts).
func history(st *state) string {
	var s []string
	for _, e := range st.ends {
		s = append(s, fmt.Sprintf("%s%v want=%v committed=%v err=%s", e.member, e.ids, e.commit, e.committed, errClass(e.err)))
	}
	return strings.Join(s, "; ")
}

// outcome is the canonical terminal observation: per controlled member the
// sequence of End results with the input identities it covered, plus which
// identities were left to the helper.
func outcome(st *state) string {
	per := map[string][]string{}
	for _, e := range st.ends {
		if e.member == "H" {
			continue
		}
		r := "abort"
		switch {
		case e.err != nil:
			r = "err:" + errClass(e.err)
		case e.committed:
			r = "commit"
		}
		per[e.member] = append(per[e.member], fmt.Sprintf("%s=%s", strings.Join(e.ids, "+"), r))
	}
	var names []string
	for n := range per {
		names = append(names, n)
	}
	sort.Strings(names)
	var s []string
	for _, n := range names {
		s = append(s, n+":["+strings.Join(per[n], " ")+"]")
	}
	return strings.Join(s, " ")
}

// endWindow restricts a deviation to the End windows of the transactions: the
// frames of AddOffsetsToTxn / TxnOffsetCommit / EndTxn and of the group
// protocol (Heartbeat / JoinGroup / SyncGroup / OffsetFetch), and the
// application steps.
func endWindow(label string) bool {
	if label == "tick" || strings.HasPrefix(label, "app:") {
		return true
	}
	for _, k := range []string{":AddOffsetsToTxn", ":TxnOffsetCommit", ":EndTxn", ":Heartbeat", ":JoinGroup", ":SyncGroup", ":OffsetFetch", ":LeaveGroup"} {
		if strings.HasSuffix(label, k) {
			return true
		}
	}
	return false
}

func allowEndWindows(fromCost int) func(parent explore.Job, point int, label string, cost int) bool {
	return func(parent explore.Job, point int, label string, cost int) bool {
		if cost < fromCost {
			return true
		}
		if !endWindow(label) {
			return false
		}
		for _, k := range parent.Kinds {
			if !endWindow(k) {
				return false
			}
		}
		return true
	}
}

// Plans returns the exploration plans of the ETL scenario family.
func Plans() []nrun.Plan { return plans }

// AllPlans is what the C10 check runs: the generated family first, then the
// hand-written scenarios.
func AllPlans() []nrun.Plan { return append(GenPlans(), plans...) }

var plans = []nrun.Plan{
	{Scenario: scenario(variant{name: "ETL-coop", coop: true, joinAfter: 2}), QuickBudget: 1, ThoroughBudget: 2, Weight: 1, Allow: allowByTier()},
	{Scenario: scenario(variant{name: "ETL-eager", joinAfter: 1}), QuickBudget: 1, ThoroughBudget: 2, Weight: 1, Allow: allowByTier()},
	{Scenario: scenario(variant{name: "ETL-coop-tv1", coop: true, tv1: true, joinAfter: 2}), QuickBudget: 1, ThoroughBudget: 2, Weight: 1, Allow: allowByTier()},
	// added after an independent seeded change was missed (Begin clearing the
	// revoked/lost flag): the rebalance must land between the poll and Begin
	{Scenario: scenario(variant{name: "ETL-coop-slowbegin", coop: true, joinAfter: 2, slowBegin: true}), QuickBudget: 1, ThoroughBudget: 2, Weight: 1, Allow: allowByTier()},
	{Scenario: scenario(variant{name: "ETL-eager-slowbegin", joinAfter: 1, slowBegin: true}), QuickBudget: 1, ThoroughBudget: 2, Weight: 1, Allow: allowByTier()},
}

// allowByTier: quick = k=1 restricted to End windows; thorough = full k=1,
// k=2 restricted to End windows.
func allowByTier() func(parent explore.Job, point int, label string, cost int) bool {
	thor, quick := allowEndWindows(2), allowEndWindows(quickFrom)
	return func(parent explore.Job, point int, label string, cost int) bool {
		if ev.Thorough() {
			return thor(parent, point, label, cost)
		}
		return quick(parent, point, label, cost)
	}
}

// quickFrom is the deviation count from which the quick tier restricts
// deviations to End windows (1 = all of them).
const quickFrom = 2
