package c10

import (
	"testing"
	"time"

	"verif/checks/c10/escen"
	"verif/lib/explore"
	"verif/lib/nrun"
)

func TestC10(t *testing.T) {
	if explore.IsWorker() {
		// same protocol as nrun's worker loop, more tolerant of unowned nondeterminism (see escen.ServeWorker)
		escen.ServeWorker(t, escen.AllPlans())
		return
	}
	nrun.Main(t, &nrun.Check{
		ID: "C10", TestName: "TestC10", Plans: escen.AllPlans(),
		QuickTime: 120 * time.Second, ThorTime: 18 * time.Minute,
		Rule:   "engine N. Generated family EG (escen/gen.go): every (configuration: KIP-890p2|TV1 broker x cooperative|eager balancer, transaction timeout 6 s, plus two short-session configurations (session timeout 2.5 s) in which the broker holds the EndTxn(commit) of A's first (thorough: first or second) committing transaction for 4 s, so that A is removed from the group while its transactional offset commit is pending; script of member A: one or two rounds PollRecords(n)/Begin/Produce per record/Flush/End(TryCommit|TryAbort) with the application's think time (none | 1.37 s > heartbeat | 8 s > transaction timeout) before Begin, inside the transaction, after Flush or after End, then Close; gate at which member B is created: start | after A's 1st poll | after A's 2nd poll | never) on the default schedule in the quick tier (6 x 210 x 4 = 5040 executions), a larger family (poll sizes 2|3, A staying, B thinking, 75600 combinations) plus single deviations, time-capped, in the thorough tier. Hand-written scenarios: consume-transform-produce pipeline with two controlled GroupTransactSession members (A from the start, B joining after A's first (eager) or second (cooperative) round so that the rebalance lands in A's open transaction, A closing after 4 rounds; each round = PollRecords(2), Begin, one output per input, 1.37 s processing time, Flush, End) over 2x4 input records; every order of application calls (PollRecords/Begin/Produce/Flush/End/Close), frame deliveries, timer ticks and injected faults (connection kill before/after handling on Produce, AddPartitionsToTxn, AddOffsetsToTxn, TxnOffsetCommit, EndTxn; CONCURRENT_TRANSACTIONS and COORDINATOR_LOAD_IN_PROGRESS on the transactional requests) within k deviations of the default order, for cooperative-sticky and range (eager) balancing on a KIP-890p2 broker and cooperative-sticky on a TV1 broker. Quick tier: all single deviations (k=1, unrestricted). Thorough tier: k=1 unrestricted, k=2 restricted to End windows (both deviations among: application steps, tick, frames of AddOffsetsToTxn/TxnOffsetCommit/EndTxn/Heartbeat/JoinGroup/SyncGroup/OffsetFetch/LeaveGroup and their faults), time-capped. distinct = distinct terminal outcomes (per member sequence of End results with the input identities covered)",
		Assume: []string{"kfake is the broker", "an uncontrolled GroupTransactSession member of the same group drains the remaining input after the explored phase", "read_committed view computed from the raw log of the output partition", "default RequestRetries (an End whose EndTxn outcome is unconfirmed after 20 retries is outside the explored space)", "synctests build of xsync", "goroutine micro-interleavings inside one event are the Go runtime's"},
	})
}
