package c10

import (
	"testing"

	"verif.local/ev"

	"verif/lib/explore"
	"verif/lib/netctl"
	"verif/lib/nrun"
)

// serveWorker replaces nrun's worker loop (same protocol) with one that is
// more tolerant of the nondeterminism engine N does not own (kfake map
// iteration order when it answers several members at once, timers due at the
// same virtual instant, goroutine order inside one event):
//
//   - a replayed prefix that diverges is retried up to 8 times (nrun: 3);
//   - an execution that will be the parent of further jobs (its cost is below
//     the budget) is run again and the schedule seen twice is reported, so
//     that a rarely taken order does not become the parent of a whole subtree
//     of jobs that then diverge. Any run with a violation is reported as is.
func serveWorker(t *testing.T, plans []nrun.Plan) {
	by := map[string]*netctl.Scenario{}
	budget := map[string]int{}
	for _, p := range plans {
		by[p.Scenario.Name] = p.Scenario
		budget[p.Scenario.Name] = p.QuickBudget
		if ev.Thorough() {
			budget[p.Scenario.Name] = p.ThoroughBudget
		}
	}
	explore.ServeWorker(func(job explore.Job) explore.Result {
		sc := by[job.Scenario]
		if sc == nil {
			return explore.Result{Crash: "unknown scenario " + job.Scenario}
		}
		run := func() explore.Result {
			res := netctl.Run(t, sc, job)
			for try := 0; res.Diverged && try < 7; try++ {
				res = netctl.Run(t, sc, job)
			}
			return res
		}
		res := run()
		if job.Cost >= budget[job.Scenario] || res.Diverged || len(res.Viol) > 0 || res.Crash != "" {
			return res
		}
		res2 := run()
		if len(res2.Viol) > 0 || sameSchedule(res, res2) {
			return res2
		}
		res3 := run()
		if len(res3.Viol) > 0 || sameSchedule(res3, res2) {
			return res3
		}
		return res
	})
}

func sameSchedule(a, b explore.Result) bool {
	if a.Diverged || b.Diverged || len(a.Points) != len(b.Points) {
		return false
	}
	for i := range a.Points {
		pa, pb := a.Points[i], b.Points[i]
		if pa.Chosen != pb.Chosen || len(pa.Labels) != len(pb.Labels) {
			return false
		}
		for j := range pa.Labels {
			if pa.Labels[j] != pb.Labels[j] {
				return false
			}
		}
	}
	return true
}
