#!/bin/bash
set -eu
cd "$(dirname "$0")/../.."
. bin/env.sh
go test -c -tags synctests,verif -o "$BUILD/c10.test" ./checks/c10
exec "$BUILD/c10.test" -test.run '^TestC10$' -test.timeout 0
