package c39

import (
	"context"
	"errors"
	"fmt"
	"os"
	"regexp"
	"sort"
	"strings"
	"sync"
	"testing"
	"time"

	"github.com/twmb/franz-go/pkg/kadm"
	"github.com/twmb/franz-go/pkg/kfake"
	"github.com/twmb/franz-go/pkg/kgo"
	"github.com/twmb/franz-go/pkg/kmsg"

	"verif/lib/explore"
	"verif/lib/netctl"
	"verif/lib/nrun"
	"verif/lib/nscen"
)

// C39: a direct consumer consumes exactly the partitions it selects
// (DESIGN.md §4 C39). Scenario = one consumer configuration + a scripted APP
// thread (selection calls and polls, strictly sequential, so "selected when
// the poll started" is exact) + a scripted ENV thread (topic creation /
// partition growth / deletion through uncontrolled admin clients). The
// explorer owns the order of APP steps, ENV steps, request/response frames of
// the consumer, timer ticks and Metadata connection kills.

type tp struct {
	t string
	p int32
}

// model is the harness's own notion of "selected", maintained only from calls
// that have RETURNED and from the documentation of each call.
type model struct {
	regex   bool
	include []*regexp.Regexp
	exclude []*regexp.Regexp
	topics  map[string]bool // whole topics selected by name
	parts   map[tp]bool     // partitions selected explicitly
	removed map[tp]bool     // partitions removed from a whole-topic selection
	// optional: partitions whose status the doc comments leave open (may be
	// consumed, need not be): a partition removed from a by-name topic when
	// AddConsumeTopics names that topic again.
	optional map[tp]bool
}

func (m *model) selected(t string, p int32, internal bool) bool {
	if m.regex {
		if internal { // "internal topics only when named explicitly"
			return false
		}
		ok := false
		for _, re := range m.include {
			if re.MatchString(t) {
				ok = true
			}
		}
		for _, re := range m.exclude {
			if re.MatchString(t) {
				ok = false
			}
		}
		return ok
	}
	if m.parts[tp{t, p}] || m.optional[tp{t, p}] {
		return true
	}
	return m.topics[t] && !m.removed[tp{t, p}]
}

// must: selected, and the documentation leaves no doubt about it.
func (m *model) must(t string, p int32, internal bool) bool {
	return m.selected(t, p, internal) && !m.optional[tp{t, p}]
}

type rk struct {
	t   string
	p   int32
	off int64
}

type state struct {
	x  *netctl.Exec
	c  *kfake.Cluster
	cl *kgo.Client
	nb int

	mu       sync.Mutex
	m        model
	internal map[string]bool  // topics created with the internal flag
	nparts   map[string]int32 // partitions created so far (completed ENV steps), per topic
	deleted  map[string]bool
	ever     map[tp]bool     // partitions that were selected at some point
	purges   map[string]int  // PurgeTopicsFromConsuming calls per topic
	got      map[rk]int      // deliveries per record
	since    map[rk]int      // deliveries since the partition was last (re)selected by a call with a start offset
	removes  map[tp]int      // RemoveConsumePartitions calls per partition
	pinEver  map[string]bool // topics that had an explicitly pinned partition since their last purge
	polls    int
	errs     map[string]int

	// What the client has asked the broker for (decoded Fetch request frames):
	// used only to tell the known by-name/partial-remove defect from anything else.
	ids             map[[16]byte]string
	fetched         map[tp]bool
	fetchedAtRemove map[string]map[tp]bool // by-name topic -> partitions fetched when its first partial remove returned
}

func newState(x *netctl.Exec, nb int) *state {
	st := &state{x: x, nb: nb, internal: map[string]bool{}, nparts: map[string]int32{}, deleted: map[string]bool{},
		ever: map[tp]bool{}, purges: map[string]int{}, got: map[rk]int{}, errs: map[string]int{},
		since: map[rk]int{}, removes: map[tp]int{}, pinEver: map[string]bool{},
		ids: map[[16]byte]string{}, fetched: map[tp]bool{}, fetchedAtRemove: map[string]map[tp]bool{}}
	st.m = model{topics: map[string]bool{}, parts: map[tp]bool{}, removed: map[tp]bool{}, optional: map[tp]bool{}}
	x.Data = st
	x.FrameHook = st.frameHook
	return st
}

// ---- ENV actions (uncontrolled admin/producer clients; each completes inside its step)

func (st *state) admin(f func(ctx context.Context, h *kgo.Client, adm *kadm.Client) error, what string) {
	h := nscen.Helper(st.x, st.c, kgo.RecordPartitioner(kgo.ManualPartitioner()))
	defer h.Close()
	ctx, cancel := context.WithTimeout(context.Background(), time.Minute)
	defer cancel()
	if err := f(ctx, h, kadm.NewClient(h)); err != nil {
		st.x.Violate("harness:env", "%s: %v", what, err)
	}
}

// fill produces the 2 tagged records of partitions [from,to) of a topic.
func (st *state) fill(ctx context.Context, h *kgo.Client, topic string, from, to int32) error {
	for p := from; p < to; p++ {
		if st.nb > 1 { // kfake picks leaders at random: pin them
			if err := st.c.MoveTopicPartition(topic, p, p%int32(st.nb)); err != nil {
				return err
			}
		}
	}
	h.ForceMetadataRefresh()
	for p := from; p < to; p++ {
		for i := 0; i < 2; i++ {
			r := &kgo.Record{Topic: topic, Partition: p, Value: []byte(fmt.Sprintf("%s/%d#%d", topic, p, i))}
			var err error
			for try := 0; try < 50; try++ {
				if err = h.ProduceSync(ctx, r).FirstErr(); err == nil {
					break
				}
				time.Sleep(50 * time.Millisecond)
				h.ForceMetadataRefresh()
			}
			if err != nil {
				return fmt.Errorf("produce %s/%d: %w", topic, p, err)
			}
			if r.Offset != int64(i) {
				return fmt.Errorf("produce %s/%d: record %d landed at offset %d", topic, p, i, r.Offset)
			}
		}
	}
	return nil
}

func (st *state) createTopic(topic string, parts int32, internal bool) {
	st.admin(func(ctx context.Context, h *kgo.Client, adm *kadm.Client) error {
		var cfgs map[string]*string
		if internal {
			cfgs = map[string]*string{"kfake.is_internal": kadm.StringPtr("true")} // what kfake's Metadata reports as IsInternal
		}
		if _, err := adm.CreateTopic(ctx, parts, 1, cfgs, topic); err != nil {
			return err
		}
		ti := st.c.TopicInfo(topic)
		st.mu.Lock()
		st.internal[topic] = internal
		if ti != nil {
			st.ids[ti.TopicID] = topic
		}
		st.mu.Unlock()
		if err := st.fill(ctx, h, topic, 0, parts); err != nil {
			return err
		}
		st.mu.Lock()
		st.nparts[topic] = parts
		st.mu.Unlock()
		return nil
	}, "create "+topic)
}

func (st *state) addPartitions(topic string, add int32) {
	st.admin(func(ctx context.Context, h *kgo.Client, adm *kadm.Client) error {
		resp, err := adm.CreatePartitions(ctx, int(add), topic)
		if err == nil {
			err = resp.Error()
		}
		if err != nil {
			return err
		}
		st.mu.Lock()
		from := st.nparts[topic]
		st.mu.Unlock()
		if err := st.fill(ctx, h, topic, from, from+add); err != nil {
			return err
		}
		st.mu.Lock()
		st.nparts[topic] = from + add
		st.mu.Unlock()
		return nil
	}, "add partitions to "+topic)
}

func (st *state) deleteTopic(topic string) {
	st.admin(func(ctx context.Context, h *kgo.Client, adm *kadm.Client) error {
		st.mu.Lock()
		st.deleted[topic] = true // from here on its records may legitimately never arrive
		st.mu.Unlock()
		resp, err := adm.DeleteTopic(ctx, topic)
		if err == nil {
			err = resp.Err
		}
		return err
	}, "delete "+topic)
}

// ---- APP actions (the model changes when the call has returned)

func (st *state) markEver() {
	// called with mu held: remember every existing partition selected now
	for t, n := range st.nparts {
		for p := int32(0); p < n; p++ {
			if st.m.selected(t, p, st.internal[t]) {
				st.ever[tp{t, p}] = true
			}
		}
	}
	for k := range st.m.parts {
		st.ever[k] = true
	}
}

// resel: the partition starts over at its start offset; both records are owed again.
func (st *state) resel(t string, p int32) {
	for off := int64(0); off < 2; off++ {
		delete(st.since, rk{t, p, off})
	}
}

func (st *state) addConsumeTopics(topics ...string) {
	st.cl.AddConsumeTopics(topics...)
	st.mu.Lock()
	defer st.mu.Unlock()
	if st.m.regex { // "This function is a no-op if the client is configured to consume via regex."
		return
	}
	for _, t := range topics {
		pinned := false
		for k := range st.m.parts {
			if k.t == t {
				pinned = true
			}
		}
		if pinned {
			// "if you are directly consuming and specified ConsumePartitions,
			// this function will not add the rest of the partitions for a topic
			// unless the topic has been previously purged"
			continue
		}
		was := st.m.topics[t]
		st.m.topics[t] = true
		for k := range st.m.removed {
			if k.t == t { // removed from the by-name topic, topic named again: left open by the docs
				delete(st.m.removed, k)
				st.m.optional[k] = true
			}
		}
		if !was {
			for p := int32(0); p < 8; p++ {
				if !st.m.optional[tp{t, p}] {
					st.resel(t, p)
				}
			}
		}
	}
}

func (st *state) addConsumePartitions(ps map[string][]int32) {
	arg := map[string]map[int32]kgo.Offset{}
	for t, l := range ps {
		arg[t] = map[int32]kgo.Offset{}
		for _, p := range l {
			arg[t][p] = kgo.NewOffset().AtStart()
		}
	}
	st.cl.AddConsumePartitions(arg)
	st.mu.Lock()
	defer st.mu.Unlock()
	if st.m.regex { // "works only for direct, non-regex consumers"
		return
	}
	for t, l := range ps {
		st.pinEver[t] = true
		for _, p := range l {
			k := tp{t, p}
			was := st.m.selected(t, p, st.internal[t])
			st.m.parts[k] = true
			delete(st.m.removed, k)
			if !was { // "adds new partitions to be consumed at the given offsets" (AtStart)
				st.resel(t, p)
			}
		}
	}
}

func (st *state) removeConsumePartitions(ps map[string][]int32) {
	arg := map[string][]int32{}
	for t, l := range ps {
		arg[t] = append([]int32(nil), l...)
	}
	st.mu.Lock()
	st.markEver()
	st.mu.Unlock()
	st.cl.RemoveConsumePartitions(arg)
	st.mu.Lock()
	defer st.mu.Unlock()
	if st.m.regex {
		return
	}
	for t, l := range ps {
		if st.m.topics[t] && st.fetchedAtRemove[t] == nil {
			snap := map[tp]bool{}
			for k := range st.fetched {
				if k.t == t {
					snap[k] = true
				}
			}
			st.fetchedAtRemove[t] = snap
		}
		for _, p := range l {
			k := tp{t, p}
			st.removes[k]++
			delete(st.m.parts, k)
			delete(st.m.optional, k)
			if st.m.topics[t] {
				st.m.removed[k] = true
			}
		}
	}
}

// frameHook records which partitions the client asks the broker for.
func (st *state) frameHook(c *netctl.Conn, dir string, key, ver int16, frame []byte) {
	if dir != "req" || key != 1 || c.Client != "c" {
		return
	}
	req, _, ok := netctl.DecodeRequest(frame)
	if !ok {
		return
	}
	fr, ok := req.(*kmsg.FetchRequest)
	if !ok {
		return
	}
	st.mu.Lock()
	defer st.mu.Unlock()
	for _, rt := range fr.Topics {
		name := rt.Topic
		if name == "" {
			name = st.ids[rt.TopicID]
		}
		for _, rp := range rt.Partitions {
			st.fetched[tp{name, rp.Partition}] = true
		}
	}
}

func (st *state) purge(topics ...string) {
	st.mu.Lock()
	st.markEver()
	st.mu.Unlock()
	st.cl.PurgeTopicsFromConsuming(topics...)
	st.mu.Lock()
	for _, t := range topics {
		st.purges[t]++
		// "this removes all concept of the topic from being consumed"; under
		// regex "the topic will be re-discovered" (the model's regex is unchanged).
		delete(st.m.topics, t)
		for k := range st.m.parts {
			if k.t == t {
				delete(st.m.parts, k)
			}
		}
		for k := range st.m.removed {
			if k.t == t {
				delete(st.m.removed, k)
			}
		}
		for k := range st.m.optional {
			if k.t == t {
				delete(st.m.optional, k)
			}
		}
		// "removes all concept of the topic": what follows is a fresh start
		delete(st.pinEver, t)
		delete(st.fetchedAtRemove, t)
	}
	st.mu.Unlock()
}

// poll runs one PollRecords and judges every returned record against the
// selection as of the poll's START (APP is the only thread changing it).
func (st *state) poll(d time.Duration, max int) int {
	ctx, cancel := context.WithTimeout(context.Background(), d)
	defer cancel()
	fs := st.cl.PollRecords(ctx, max)
	st.mu.Lock()
	defer st.mu.Unlock()
	st.polls++
	for _, fe := range fs.Errors() {
		if errors.Is(fe.Err, context.DeadlineExceeded) || errors.Is(fe.Err, context.Canceled) {
			continue
		}
		st.errs[nscen.ErrClass(fe.Err)]++
	}
	n := 0
	fs.EachRecord(func(r *kgo.Record) {
		n++
		k := tp{r.Topic, r.Partition}
		if want := fmt.Sprintf("%s/%d#%d", r.Topic, r.Partition, r.Offset); string(r.Value) != want {
			st.x.Violate("record-identity", "record returned as %s/%d@%d carries the tag %q", r.Topic, r.Partition, r.Offset, r.Value)
		}
		if !st.m.selected(r.Topic, r.Partition, st.internal[r.Topic]) {
			switch {
			case st.m.regex && st.internal[r.Topic]:
				st.x.Violate("internal-returned", "poll %d returned %s/%d@%d: internal topic matched only by the regex", st.polls, r.Topic, r.Partition, r.Offset)
			case st.ever[k]:
				st.x.Violate("removed-returned", "poll %d (started after the removing call returned) returned %s/%d@%d of a removed/purged partition", st.polls, r.Topic, r.Partition, r.Offset)
			default:
				st.x.Violate("unselected-returned", "poll %d returned %s/%d@%d which was never selected", st.polls, r.Topic, r.Partition, r.Offset)
			}
		}
		st.got[rk{r.Topic, r.Partition, r.Offset}]++
		st.since[rk{r.Topic, r.Partition, r.Offset}]++
	})
	return n
}

// missing lists the records that must have arrived by now.
func (st *state) missing() []string {
	st.mu.Lock()
	defer st.mu.Unlock()
	var out []string
	for t, n := range st.nparts {
		if st.deleted[t] {
			continue
		}
		for p := int32(0); p < n; p++ {
			if !st.m.must(t, p, st.internal[t]) {
				continue
			}
			for off := int64(0); off < 2; off++ {
				if st.since[rk{t, p, off}] == 0 {
					out = append(out, fmt.Sprintf("%s/%d@%d", t, p, off))
				}
			}
		}
	}
	sort.Strings(out)
	return out
}

// knownPartialRemove reports whether EVERY missing record fits the known
// defect C39:names-remove:missing exactly: a topic selected by name (no
// partition pinned since it was named / last purged), of which some OTHER partition was removed with
// RemoveConsumePartitions, and a partition the client had not yet asked the
// broker for when that call returned, of which nothing was ever delivered.
func (st *state) knownPartialRemove(miss []string) bool {
	st.mu.Lock()
	defer st.mu.Unlock()
	if st.m.regex {
		return false
	}
	for _, m := range miss {
		var t string
		var p int32
		var off int64
		i := strings.LastIndexByte(m, '/')
		if i < 0 {
			return false
		}
		t = m[:i]
		if _, err := fmt.Sscanf(m[i+1:], "%d@%d", &p, &off); err != nil {
			return false
		}
		k := tp{t, p}
		snap, removedSome := st.fetchedAtRemove[t]
		if !st.m.topics[t] || st.pinEver[t] || !removedSome || snap[k] || st.m.removed[k] {
			return false
		}
		if st.got[rk{t, p, 0}] > 0 || st.got[rk{t, p, 1}] > 0 {
			return false
		}
	}
	return true
}

func final(x *netctl.Exec) {
	st := x.Data.(*state)
	if st.cl == nil {
		return
	}
	// The environment is well behaved now. Let the scripts finish, then keep
	// polling: every selected partition of an existing topic must deliver
	// its two records within 2 virtual minutes.
	for i := 0; i < 600 && !x.ThreadsDone(); i++ {
		time.Sleep(100 * time.Millisecond)
	}
	if !x.ThreadsDone() {
		x.Violate("harness:threads", "scripted threads did not finish within a virtual minute of pass-through")
		return
	}
	deadline := time.Now().Add(2 * time.Minute)
	quiet := 0
	for time.Now().Before(deadline) {
		n := st.poll(time.Second, -1)
		if n == 0 && len(st.missing()) == 0 {
			// Nothing owed; a few more empty polls catch late unselected data.
			if quiet++; quiet >= 8 {
				break
			}
		} else if n > 0 {
			quiet = 0
		}
	}
	if miss := st.missing(); len(miss) > 0 {
		key := "missing"
		if st.knownPartialRemove(miss) {
			key = "missing:named-partial-remove"
		}
		x.Violate(key, "records of selected partitions never returned within 2 virtual minutes of a fault-free suffix: %v", miss)
	}
	st.mu.Lock()
	defer st.mu.Unlock()
	for k, n := range st.got {
		// A purged topic that still matches the regex "will be re-discovered";
		// a topic or partition selected again after a purge / removal starts
		// over at its start offset.
		max := 1 + st.purges[k.t]
		if !st.m.regex {
			max += st.removes[tp{k.t, k.p}]
		}
		if n > max {
			x.Violate("duplicate", "record %s/%d@%d returned %d times (at most %d allowed)", k.t, k.p, k.off, n, max)
		}
	}
	// Canonical outcome: which partitions delivered.
	per := map[tp]int{}
	for k, n := range st.got {
		per[tp{k.t, k.p}] += n
	}
	var s []string
	for k, n := range per {
		s = append(s, fmt.Sprintf("%s/%d=%d", k.t, k.p, n))
	}
	sort.Strings(s)
	var es []string
	for e := range st.errs {
		es = append(es, e)
	}
	sort.Strings(es)
	x.Observe("%s errs=%v", strings.Join(s, " "), es)
}

func metaFaults(x *netctl.Exec, dir string, key int16, c *netctl.Conn) []string {
	if key != 3 || c.Client != "c" {
		return nil
	}
	if dir == "req" {
		return []string{"killbefore"}
	}
	return []string{"killafter"}
}

func baseOpts() []kgo.Opt {
	return []kgo.Opt{kgo.MetadataMaxAge(5 * time.Second), kgo.FetchMaxWait(1700 * time.Millisecond)}
}

// Durations are chosen pairwise "incommensurable" so that two timers (long
// poll expiry, metadata refresh, poll timeout, ENV pacing) practically never
// fire at the same virtual instant: the order of simultaneous timers is not
// owned by the controller and makes replayed prefixes diverge.
const (
	pollWait = 2300 * time.Millisecond
	envNap   = 1130 * time.Millisecond
)

func nap(d time.Duration) { time.Sleep(d) }

// pollUntil keeps polling (one gated step per poll) until the virtual time
// since the start of the execution reaches until, at most max polls. The
// timeline of the explored phase so covers the metadata refreshes that
// discover what ENV created.
func (st *state) pollUntil(t *netctl.Thread, until time.Duration, max int) {
	for i := 0; i < max && st.x.Elapsed() < until; i++ {
		t.Step("poll")
		before := st.x.Elapsed()
		st.poll(pollWait, -1)
		if st.x.Elapsed() == before {
			nap(430 * time.Millisecond) // a poll that returned at once (data or an error): do not spin
		}
	}
}

// joinThreads keeps the cluster alive until the scripted threads returned
// (registered right after the cluster, so it runs before the cluster closes).
func joinThreads(x *netctl.Exec) {
	x.OnCleanup(func() {
		for i := 0; i < 1200 && !x.ThreadsDone(); i++ {
			time.Sleep(100 * time.Millisecond)
		}
	})
}

// ---- (a) ConsumeTopics by name
var scNames = &netctl.Scenario{
	Name: "names", Faults: metaFaults, Horizon: 3 * time.Minute, MaxPoints: 500,
	Setup: func(x *netctl.Exec) {
		// One broker: with two, both sources issue their frames at the same
		// virtual instant in map/goroutine order, which the controller does not
		// own; replayed prefixes of this long timeline then mostly diverge.
		st := newState(x, 1)
		st.c = x.Cluster(1)
		joinThreads(x)
		st.createTopic("a", 2, false)
		st.createTopic("b", 1, false)
		st.createTopic("d", 1, false)
		st.createTopic("x", 1, false) // exists, never selected
		st.m.topics["a"], st.m.topics["b"], st.m.topics["d"] = true, true, true
		st.cl = nscen.NewClient(x, "c", st.c, append(baseOpts(), kgo.ConsumeTopics("a", "b", "d"))...)
		x.Thread("APP", func(t *netctl.Thread) {
			// A direct consumer fetches as soon as it exists: by now the records
			// of a, b and d are normally buffered in the client, unpolled. The
			// purge must drop b's.
			nap(310 * time.Millisecond)
			t.Step("purge-b")
			st.purge("b")
			t.Step("poll")
			st.poll(pollWait, -1)
			t.Step("add-c")
			st.addConsumeTopics("c") // internal-flagged, named explicitly; possibly not created yet
			st.pollUntil(t, 12*time.Second, 12)
		})
		x.Thread("ENV", func(t *netctl.Thread) {
			nap(envNap)
			t.Step("create-c-internal")
			st.createTopic("c", 1, true)
			nap(envNap)
			t.Step("create-y")
			st.createTopic("y", 1, false) // never selected
			nap(envNap)
			t.Step("addparts-a")
			st.addPartitions("a", 1)
			nap(envNap)
			t.Step("delete-d")
			st.deleteTopic("d")
		})
	},
	Final: final,
}

// ---- (a2) ConsumeTopics by name, one partition removed, topic grows later
var scNamesRemove = &netctl.Scenario{
	Name: "names-remove", Faults: metaFaults, Horizon: 3 * time.Minute, MaxPoints: 400,
	Setup: func(x *netctl.Exec) {
		st := newState(x, 1)
		st.c = x.Cluster(1)
		joinThreads(x)
		st.createTopic("a", 2, false)
		st.createTopic("b", 2, false)
		st.m.topics["a"], st.m.topics["b"] = true, true
		st.cl = nscen.NewClient(x, "c", st.c, append(baseOpts(), kgo.ConsumeTopics("a", "b"))...)
		x.Thread("APP", func(t *netctl.Thread) {
			nap(310 * time.Millisecond) // a/0, a/1, b/0, b/1 normally buffered by now, unpolled
			t.Step("remove-a0")
			st.removeConsumePartitions(map[string][]int32{"a": {0}})
			t.Step("poll")
			st.poll(pollWait, -1)
			t.Step("remove-b0-b1")
			// "If you specified ConsumeTopics and this function removes all
			// partitions for a topic, the topic will no longer be consumed."
			st.removeConsumePartitions(map[string][]int32{"b": {0, 1}})
			st.pollUntil(t, 12*time.Second, 12)
		})
		x.Thread("ENV", func(t *netctl.Thread) {
			nap(2 * envNap)
			t.Step("addparts-a")
			st.addPartitions("a", 1) // a/2: topic a is still consumed by name
		})
	},
	Final: final,
}

// ---- (b) regex with an exclusion
var scRegex = &netctl.Scenario{
	Name: "regex", Faults: metaFaults, Horizon: 3 * time.Minute, MaxPoints: 500,
	Setup: func(x *netctl.Exec) {
		st := newState(x, 1)
		st.c = x.Cluster(1)
		joinThreads(x)
		st.createTopic("t1", 2, false)
		st.createTopic("tx1", 1, false) // excluded
		st.createTopic("u1", 1, false)  // not matching
		st.m.regex = true
		st.m.include = []*regexp.Regexp{regexp.MustCompile("^t.*")}
		st.m.exclude = []*regexp.Regexp{regexp.MustCompile("^tx.*")}
		st.cl = nscen.NewClient(x, "c", st.c, append(baseOpts(), kgo.ConsumeRegex(), kgo.ConsumeTopics("^t.*"), kgo.ConsumeExcludeTopics("^tx.*"))...)
		x.Thread("APP", func(t *netctl.Thread) {
			t.Step("poll")
			st.poll(pollWait, -1)
			t.Step("add-u1-noop")
			st.addConsumeTopics("u1") // documented no-op under regex
			t.Step("addparts-u1-noop")
			st.addConsumePartitions(map[string][]int32{"u1": {0}}) // documented to work only for non-regex consumers
			t.Step("poll")
			st.poll(pollWait, -1)
			t.Step("purge-t1")
			st.purge("t1") // still exists and still matches: "will be re-discovered"
			st.pollUntil(t, 12*time.Second, 12)
		})
		x.Thread("ENV", func(t *netctl.Thread) {
			nap(envNap)
			t.Step("create-t2")
			st.createTopic("t2", 1, false) // matching, created later
			nap(envNap)
			t.Step("create-t3-tx2")
			st.createTopic("t3", 1, false)  // matching, created later, stays
			st.createTopic("tx2", 1, false) // excluded
			t.Step("create-t_int-internal")
			st.createTopic("t_int", 1, true) // matches the regex but is internal
			t.Step("create-__x")
			st.createTopic("__x", 1, false) // internal-looking name, does not match
			nap(envNap)
			t.Step("addparts-t1")
			st.addPartitions("t1", 1)
			nap(6 * envNap) // past one MetadataMaxAge: t2 is normally discovered before it disappears
			t.Step("delete-t2")
			st.deleteTopic("t2")
		})
	},
	Final: final,
}

// ---- (c) explicit partitions
var scParts = &netctl.Scenario{
	Name: "partitions", Faults: metaFaults, Horizon: 3 * time.Minute, MaxPoints: 500,
	Setup: func(x *netctl.Exec) {
		st := newState(x, 1)
		st.c = x.Cluster(1)
		joinThreads(x)
		st.createTopic("p", 2, false)
		st.createTopic("q", 2, false)
		// Initially ONE partition: PollRecords(ctx, 1) then deterministically
		// returns p/0@0 and leaves p/0@1 buffered in the client (with several
		// partitions ready, which record comes first follows map order, which
		// the controller does not own and which changes later frames).
		st.m.parts[tp{"p", 0}] = true
		start := kgo.NewOffset().AtStart()
		st.cl = nscen.NewClient(x, "c", st.c, append(baseOpts(), kgo.ConsumePartitions(map[string]map[int32]kgo.Offset{"p": {0: start}}))...)
		x.Thread("APP", func(t *netctl.Thread) {
			t.Step("poll1")
			st.poll(pollWait, 1)
			t.Step("remove-p0") // p/0@1 is normally buffered now and must be dropped
			st.removeConsumePartitions(map[string][]int32{"p": {0}})
			t.Step("add-p1-q1-r0")
			st.addConsumePartitions(map[string][]int32{"p": {1}, "q": {1}, "r": {0}}) // r possibly not created yet
			t.Step("poll")
			st.poll(pollWait, -1)
			t.Step("remove-q1")
			st.removeConsumePartitions(map[string][]int32{"q": {1}})
			st.pollUntil(t, 12*time.Second, 12)
		})
		x.Thread("ENV", func(t *netctl.Thread) {
			nap(envNap)
			t.Step("create-r")
			st.createTopic("r", 2, false) // r/0 selected by AddConsumePartitions, r/1 never
			nap(envNap)
			t.Step("addparts-p")
			st.addPartitions("p", 1) // p/2 never selected
			nap(envNap)
			t.Step("create-z")
			st.createTopic("z", 1, false)
			nap(envNap)
			t.Step("delete-q")
			st.deleteTopic("q")
		})
	},
	Final: final,
}

// ---- (c2) explicit partitions, a topic loses SOME of its pinned partitions
// (added after an independent seeded change was missed: a stale pin of a
// removed partition came back at the next metadata update whenever another
// partition of the same topic stayed pinned; (c) above only ever removes the
// last pinned partition of a topic).
var scPartsPartial = &netctl.Scenario{
	Name: "partitions-partial", Faults: metaFaults, Horizon: 3 * time.Minute, MaxPoints: 500,
	Setup: func(x *netctl.Exec) {
		st := newState(x, 1)
		st.c = x.Cluster(1)
		joinThreads(x)
		st.createTopic("p", 3, false)
		st.createTopic("q", 2, false)
		st.m.parts[tp{"p", 0}] = true
		st.m.parts[tp{"p", 1}] = true
		start := kgo.NewOffset().AtStart()
		st.cl = nscen.NewClient(x, "c", st.c, append(baseOpts(), kgo.ConsumePartitions(map[string]map[int32]kgo.Offset{"p": {0: start, 1: start}}))...)
		x.Thread("APP", func(t *netctl.Thread) {
			nap(310 * time.Millisecond) // p/0, p/1 normally buffered by now, unpolled
			t.Step("remove-p0")         // p/1 stays pinned
			st.removeConsumePartitions(map[string][]int32{"p": {0}})
			t.Step("add-q0-q1")
			st.addConsumePartitions(map[string][]int32{"q": {0, 1}})
			t.Step("poll")
			st.poll(pollWait, -1)
			t.Step("remove-q1") // q/0 stays pinned
			st.removeConsumePartitions(map[string][]int32{"q": {1}})
			st.pollUntil(t, 12*time.Second, 12)
		})
		x.Thread("ENV", func(t *netctl.Thread) {
			nap(envNap)
			t.Step("addparts-q")
			st.addPartitions("q", 1) // q/2 never selected; forces a metadata change for q
			nap(envNap)
			t.Step("create-z")
			st.createTopic("z", 1, false)
		})
	},
	Final: final,
}

var plans = []nrun.Plan{
	{Scenario: scNames, QuickBudget: 1, ThoroughBudget: 2, Weight: 1.5},
	{Scenario: scRegex, QuickBudget: 1, ThoroughBudget: 2, Weight: 1},
	{Scenario: scParts, QuickBudget: 1, ThoroughBudget: 2, Weight: 1},
	{Scenario: scNamesRemove, QuickBudget: 1, ThoroughBudget: 2, Weight: 0.5},
	{Scenario: scPartsPartial, QuickBudget: 1, ThoroughBudget: 2, Weight: 0.7},
}

func TestC39(t *testing.T) {
	if os.Getenv(genEnv) != "" && explore.IsWorker() {
		genWorker(t) // worker of the generated-script sweep (gen_test.go)
		return
	}
	if p := os.Getenv("VERIF_REPLAY"); p != "" && genReplay(t, p) {
		return
	}
	nrun.Main(t, &nrun.Check{
		ID: "C39", TestName: "TestC39", Plans: plans,
		QuickTime: 50 * time.Second, ThorTime: 11 * time.Minute,
		KeyOf: genKey, Extra: genSweep,
		Rule:   "engine N: every order of application calls (AddConsumeTopics, AddConsumePartitions, RemoveConsumePartitions, PurgeTopicsFromConsuming, polls), environment actions (create matching / non-matching / excluded / internal topics, CreatePartitions on a consumed topic, DeleteTopics), request/response frame deliveries of the consumer, timer ticks and Metadata connection kills within k deviations of the default timeline, for five direct-consumer configurations (topics by name, by name with RemoveConsumePartitions, regex with exclusion, explicit partitions, explicit partitions with a topic losing some but not all of its pinned partitions); every created partition holds 2 records tagged with its identity; distinct = distinct terminal outcomes (deliveries per partition, error classes) per scenario; plus the generated family: every application script of L slots (quick 3, thorough 4) over a per-configuration alphabet of selection calls and the empty slot (by name: 8 symbols, explicit partitions: 9, regex: 7), each slot followed by a poll, against a fixed environment timeline (create topic, CreatePartitions, delete topic), run on the default schedule",
		Assume: []string{"kfake is the broker; a topic is internal when kfake's Metadata says IsInternal (topic config kfake.is_internal)", "synctests build of xsync; virtual time", "selection model maintained by the harness from calls that have returned, per the doc comment of each call; under regex a purged topic that still exists is re-discovered (documented), so its records may be delivered once more per purge", "liveness bound: 2 virtual minutes of fault-free pass-through with MetadataMaxAge 5 s"},
	})
}
