package c39

import (
	"bufio"
	"encoding/json"
	"fmt"
	"io"
	"os"
	"os/exec"
	"regexp"
	"sort"
	"strconv"
	"strings"
	"sync"
	"testing"
	"time"

	"github.com/twmb/franz-go/pkg/kgo"

	"verif.local/ev"

	"verif/lib/explore"
	"verif/lib/netctl"
	"verif/lib/nscen"
)

// Generated family: EVERY application script of L slots over a small alphabet
// of selection calls (plus "-", an empty slot), for three consumer
// configurations, against a fixed environment timeline, run on the default
// schedule (k=0). The hand-written scenarios of c39_test.go explore schedules
// widely and call sequences narrowly; this family does the opposite. The
// selection model and the oracles are the same.
//
// Slot i is executed at virtual time 0.31 s + i·1.5 s after the consumer was
// created, followed by a poll; the environment acts at 1.13 s (create a topic),
// 2.57 s (CreatePartitions on a consumed topic) and 4.09 s or 7.53 s (delete a
// topic). A script with fewer calls is a script with empty slots, so the
// enumeration of exactly L slots subsumes all shorter scripts at every
// placement relative to the environment timeline. No script is pruned.
//
// Scenario name = "gen/<config>/<op>.<op>...", op = "-" | AT:<topic> |
// AP:<topic>:<partition> | RP:<topic>:<partition> | PG:<topic>.

type genCfg struct {
	id       string
	alphabet []string
	setup    func(st *state) []kgo.Opt // creates initial topics, fills the model, returns the consumer options
	env      func(st *state, at func(time.Duration))
}

var genCfgs = []genCfg{
	{
		// ConsumeTopics by name. a: 2 partitions, grows to 3; b: 1 partition,
		// deleted; c: 2 partitions, created later (named / pinned by scripts).
		id:       "N",
		alphabet: []string{"-", "AT:c", "AP:c:0", "AP:c:1", "RP:a:0", "RP:c:0", "PG:a", "PG:c"},
		setup: func(st *state) []kgo.Opt {
			st.createTopic("a", 2, false)
			st.createTopic("b", 1, false)
			st.m.topics["a"], st.m.topics["b"] = true, true
			return []kgo.Opt{kgo.ConsumeTopics("a", "b")}
		},
		env: func(st *state, at func(time.Duration)) {
			at(1130 * time.Millisecond)
			st.createTopic("c", 2, false)
			at(2570 * time.Millisecond)
			st.addPartitions("a", 1)
			at(4090 * time.Millisecond)
			st.deleteTopic("b")
		},
	},
	{
		// ConsumePartitions: two pinned partitions of p, one of q. p: 2
		// partitions, grows to 3; q: 2 partitions, deleted; r: 2, created later.
		id:       "P",
		alphabet: []string{"-", "AT:p", "AP:p:2", "AP:q:0", "AP:q:1", "AP:r:0", "RP:p:0", "RP:q:0", "PG:p"},
		setup: func(st *state) []kgo.Opt {
			st.createTopic("p", 2, false)
			st.createTopic("q", 2, false)
			st.m.parts[tp{"p", 0}], st.m.parts[tp{"p", 1}], st.m.parts[tp{"q", 0}] = true, true, true
			st.pinEver["p"], st.pinEver["q"] = true, true
			s := kgo.NewOffset().AtStart()
			return []kgo.Opt{kgo.ConsumePartitions(map[string]map[int32]kgo.Offset{"p": {0: s, 1: s}, "q": {0: s}})}
		},
		env: func(st *state, at func(time.Duration)) {
			at(1130 * time.Millisecond)
			st.createTopic("r", 2, false)
			at(2570 * time.Millisecond)
			st.addPartitions("p", 1)
			at(4090 * time.Millisecond)
			st.deleteTopic("q")
		},
	},
	{
		// Regex ^t.* excluding ^tx.*. t1: 2 partitions, grows to 3; tx1
		// excluded; u1 not matching; t2 created later, deleted after it was
		// normally discovered. Every call but the purges is a documented no-op.
		id:       "R",
		alphabet: []string{"-", "AT:u1", "AP:u1:0", "RP:t1:0", "PG:t1", "PG:t2", "PG:tx1"},
		setup: func(st *state) []kgo.Opt {
			st.createTopic("t1", 2, false)
			st.createTopic("tx1", 1, false)
			st.createTopic("u1", 1, false)
			st.m.regex = true
			st.m.include = []*regexp.Regexp{regexp.MustCompile("^t.*")}
			st.m.exclude = []*regexp.Regexp{regexp.MustCompile("^tx.*")}
			return []kgo.Opt{kgo.ConsumeRegex(), kgo.ConsumeTopics("^t.*"), kgo.ConsumeExcludeTopics("^tx.*")}
		},
		env: func(st *state, at func(time.Duration)) {
			at(1130 * time.Millisecond)
			st.createTopic("t2", 1, false)
			at(2570 * time.Millisecond)
			st.addPartitions("t1", 1)
			at(7530 * time.Millisecond)
			st.deleteTopic("t2")
		},
	},
}

func genL() int {
	if ev.Thorough() {
		return 4
	}
	return 3
}

// genNames lists the scripts of one configuration in a fixed (lexicographic) order.
func genNames(c genCfg, L int) []string {
	n := 1
	for i := 0; i < L; i++ {
		n *= len(c.alphabet)
	}
	out := make([]string, 0, n)
	idx := make([]int, L)
	for {
		ops := make([]string, L)
		for i, j := range idx {
			ops[i] = c.alphabet[j]
		}
		out = append(out, "gen/"+c.id+"/"+strings.Join(ops, "."))
		i := L - 1
		for ; i >= 0; i-- {
			if idx[i]++; idx[i] < len(c.alphabet) {
				break
			}
			idx[i] = 0
		}
		if i < 0 {
			return out
		}
	}
}

func (st *state) apply(op string) error {
	f := strings.Split(op, ":")
	part := func() (int32, error) {
		if len(f) != 3 {
			return 0, fmt.Errorf("bad op %q", op)
		}
		p, err := strconv.Atoi(f[2])
		return int32(p), err
	}
	switch {
	case op == "-":
	case f[0] == "AT" && len(f) == 2:
		st.addConsumeTopics(f[1])
	case f[0] == "PG" && len(f) == 2:
		st.purge(f[1])
	case f[0] == "AP":
		p, err := part()
		if err != nil {
			return err
		}
		st.addConsumePartitions(map[string][]int32{f[1]: {p}})
	case f[0] == "RP":
		p, err := part()
		if err != nil {
			return err
		}
		st.removeConsumePartitions(map[string][]int32{f[1]: {p}})
	default:
		return fmt.Errorf("bad op %q", op)
	}
	return nil
}

// genScenario builds the scenario of one generated script from its name.
func genScenario(name string) *netctl.Scenario {
	f := strings.SplitN(name, "/", 3)
	if len(f) != 3 || f[0] != "gen" {
		return nil
	}
	var cfg *genCfg
	for i := range genCfgs {
		if genCfgs[i].id == f[1] {
			cfg = &genCfgs[i]
		}
	}
	if cfg == nil {
		return nil
	}
	ops := strings.Split(f[2], ".")
	return &netctl.Scenario{
		Name: name, Horizon: 3 * time.Minute, MaxPoints: 600,
		Setup: func(x *netctl.Exec) {
			st := newState(x, 1)
			st.c = x.Cluster(1)
			joinThreads(x)
			opts := cfg.setup(st)
			st.cl = nscen.NewClient(x, "c", st.c, append(baseOpts(), opts...)...)
			base := x.Elapsed()
			at := func(d time.Duration) {
				if w := base + d - x.Elapsed(); w > 0 {
					time.Sleep(w)
				}
			}
			x.Thread("APP", func(t *netctl.Thread) {
				for i, op := range ops {
					at(310*time.Millisecond + time.Duration(i)*1500*time.Millisecond)
					t.Step(op)
					if err := st.apply(op); err != nil {
						x.Violate("harness:script", "%v", err)
						return
					}
					t.Step("poll")
					st.poll(900*time.Millisecond, -1)
				}
				// Past three metadata refreshes (MetadataMaxAge 5 s).
				st.pollUntil(t, base+16*time.Second, 16)
			})
			x.Thread("ENV", func(t *netctl.Thread) { cfg.env(st, at) })
		},
		Final: final,
	}
}

// ---------------------------------------------------------------------------
// Driver: a pool of persistent worker subprocesses (explore's line protocol);
// starting fresh workers per scenario as nrun does per plan would cost more
// than the executions themselves.

const genEnv = "VERIF_C39_GEN"

func genWorker(t *testing.T) {
	explore.ServeWorker(func(job explore.Job) explore.Result {
		sc := genScenario(job.Scenario)
		if sc == nil {
			return explore.Result{Crash: "unknown scenario " + job.Scenario}
		}
		res := netctl.Run(t, sc, job)
		for try := 0; res.Diverged && try < 2; try++ {
			res = netctl.Run(t, sc, job)
		}
		return res
	})
}

type gproc struct {
	cmd *exec.Cmd
	in  io.WriteCloser
	out *bufio.Reader
	rf  *os.File
}

func startGproc() (*gproc, error) {
	cmd := exec.Command(os.Args[0], "-test.run", "^TestC39$", "-test.timeout", "0")
	cmd.Env = append(os.Environ(), "VERIF_WORKER=1", genEnv+"=1", "GOMAXPROCS=1")
	cmd.Stderr = os.Stderr
	rf, wf, err := os.Pipe()
	if err != nil {
		return nil, err
	}
	cmd.ExtraFiles = []*os.File{wf}
	in, err := cmd.StdinPipe()
	if err != nil {
		return nil, err
	}
	if err := cmd.Start(); err != nil {
		return nil, err
	}
	wf.Close()
	return &gproc{cmd: cmd, in: in, out: bufio.NewReaderSize(rf, 1<<20), rf: rf}, nil
}

func (p *gproc) stop(kill bool) {
	p.in.Close()
	if kill {
		p.cmd.Process.Kill()
	}
	p.cmd.Wait()
	p.rf.Close()
}

func (p *gproc) run(job explore.Job, timeout time.Duration) (res explore.Result, ok bool) {
	b, _ := json.Marshal(job)
	b = append(b, '\n')
	type rr struct {
		line []byte
		err  error
	}
	ch := make(chan rr, 1)
	go func() {
		if _, err := p.in.Write(b); err != nil {
			ch <- rr{nil, err}
			return
		}
		line, err := p.out.ReadBytes('\n')
		ch <- rr{line, err}
	}()
	select {
	case r := <-ch:
		if r.err != nil {
			p.stop(true)
			return explore.Result{Crash: fmt.Sprintf("worker died: %v", r.err)}, false
		}
		if err := json.Unmarshal(r.line, &res); err != nil {
			p.stop(true)
			return explore.Result{Crash: fmt.Sprintf("bad worker reply: %v", err)}, false
		}
		if res.Retire {
			p.stop(true)
		}
		return res, !res.Retire
	case <-time.After(timeout):
		p.stop(true)
		<-ch
		return explore.Result{Capped: true, Obs: "job-timeout", Viol: []explore.Violation{{Key: "exec-hang", What: "execution did not finish within 3 real minutes"}}}, false
	}
}

// genKey maps an oracle key of a generated script to the violation class.
// Only the exact pattern of the known by-name/partial-remove defect (decided
// inside the execution, see knownPartialRemove) shares that defect's key.
func genKey(scenario, key string) string {
	if key == "missing:named-partial-remove" {
		return "C39:names-remove:missing"
	}
	if scenario == "names-remove" && key == "missing" {
		return "C39:names-remove:missing-other"
	}
	if strings.HasPrefix(scenario, "gen/") {
		f := strings.SplitN(scenario, "/", 3)
		return "C39:gen-" + f[1] + ":" + key
	}
	return "C39:" + scenario + ":" + key
}

// genSweep runs the generated family and merges it into the check's evidence.
func genSweep(r *ev.Run) {
	only := os.Getenv("VERIF_SCENARIO")
	if only != "" && !strings.HasPrefix(only, "gen/") {
		return
	}
	L := genL()
	slice := 35 * time.Second
	if ev.Thorough() {
		slice = 8 * time.Minute
	}
	deadline := time.Now().Add(slice)
	type item struct {
		cfg  string
		name string
	}
	var todo []item
	perCfg := map[string]map[string]any{}
	counts := map[string]int{}
	for _, c := range genCfgs {
		names := genNames(c, L)
		counts[c.id] = len(names)
		perCfg[c.id] = map[string]any{"alphabet": c.alphabet, "slots": L, "scripts": len(names)}
		for _, n := range names {
			if only == "" || only == n {
				todo = append(todo, item{c.id, n})
			}
		}
	}
	if only != "" && len(todo) == 0 {
		if genScenario(only) == nil {
			ev.InfraError("unknown generated scenario %q", only)
		}
		f := strings.SplitN(only, "/", 3)
		todo = append(todo, item{f[1], only}) // any length is accepted for a single script
	}
	start := time.Now()
	var mu sync.Mutex
	next := 0
	done := map[string]int{}
	outcomes := map[string]map[string]struct{}{}
	perKey := map[string]int{}
	var execs, points int64
	var wg sync.WaitGroup
	for w := 0; w < ev.Workers(); w++ {
		wg.Add(1)
		go func() {
			defer wg.Done()
			var p *gproc
			defer func() {
				if p != nil {
					p.stop(false)
				}
			}()
			for {
				mu.Lock()
				if next >= len(todo) || time.Now().After(deadline) {
					mu.Unlock()
					return
				}
				it := todo[next]
				next++
				mu.Unlock()
				if p == nil {
					var err error
					if p, err = startGproc(); err != nil {
						ev.InfraError("cannot start worker: %v", err)
					}
				}
				res, ok := p.run(explore.Job{Scenario: it.name}, 3*time.Minute)
				if !ok {
					p = nil
				}
				mu.Lock()
				execs++
				points += int64(len(res.Points))
				done[it.cfg]++
				r.Evals(1)
				r.Traces(1)
				r.States(int64(len(res.Points)) + 1)
				r.Transitions(int64(res.Steps))
				r.Distinct("gen-" + it.cfg + "|" + res.Obs)
				if outcomes[it.cfg] == nil {
					outcomes[it.cfg] = map[string]struct{}{}
				}
				outcomes[it.cfg][res.Obs] = struct{}{}
				if res.Crash != "" {
					res.Viol = append(res.Viol, explore.Violation{Key: "worker-crash", What: res.Crash})
				}
				for _, v := range res.Viol {
					key := genKey(it.name, v.Key)
					if perKey[key]++; perKey[key] <= 6 { // a few artefacts per class; all are counted in evidence
						r.Violation(key, fmt.Sprintf("generated script %s (default schedule): %s", it.name, v.What),
							map[string]any{"check": "C39", "scenario": it.name, "prefix": []int{}, "labels": []string{}, "violation": v})
					}
				}
				mu.Unlock()
			}
		}()
	}
	wg.Wait()
	total, completed := 0, 0
	var ids []string
	for id := range perCfg {
		ids = append(ids, id)
	}
	sort.Strings(ids)
	for _, id := range ids {
		perCfg[id]["completed"] = done[id]
		perCfg[id]["distinct_outcomes"] = len(outcomes[id])
		total += counts[id]
		completed += done[id]
		fmt.Printf("  generated scripts %-2s slots=%d alphabet=%d scripts=%d completed=%d outcomes=%d\n", id, L, len(perCfg[id]["alphabet"].([]string)), counts[id], done[id], len(outcomes[id]))
	}
	if only == "" && completed < total {
		r.NotExhaustive(fmt.Sprintf("generated scripts: time slice ended after %d of %d scripts (fixed enumeration order)", completed, total))
	}
	fmt.Printf("  generated scripts: %d of %d run on the default schedule, %d decision points, %.1fs\n", completed, len(todo), points, time.Since(start).Seconds())
	r.Set("generated_scripts", map[string]any{"slots": L, "scripts": total, "completed": completed, "per_configuration": perCfg,
		"violations_per_class": perKey, "wall_s": time.Since(start).Seconds()})
}

// genReplay replays the artefact of a generated script (VERIF_REPLAY).
func genReplay(t *testing.T, path string) bool {
	b, err := os.ReadFile(path)
	if err != nil {
		return false
	}
	var a struct {
		Artefact struct {
			Scenario string `json:"scenario"`
		} `json:"artefact"`
	}
	if json.Unmarshal(b, &a) != nil || !strings.HasPrefix(a.Artefact.Scenario, "gen/") {
		return false
	}
	sc := genScenario(a.Artefact.Scenario)
	if sc == nil {
		t.Fatalf("unknown scenario %q", a.Artefact.Scenario)
	}
	res := netctl.Run(t, sc, explore.Job{Scenario: sc.Name})
	var lab []string
	for _, pt := range res.Points {
		lab = append(lab, pt.Labels[pt.Chosen])
	}
	fmt.Printf("replay %s: points=%d\nschedule: %s\nobs: %s\n", sc.Name, len(res.Points), strings.Join(lab, " "), res.Obs)
	for _, v := range res.Viol {
		fmt.Printf("VIOLATION-REPLAYED %s: %s\n", genKey(sc.Name, v.Key), v.What)
	}
	if len(res.Viol) > 0 {
		os.Exit(1)
	}
	os.Exit(0)
	return true
}
