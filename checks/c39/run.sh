#!/bin/bash
set -eu
cd "$(dirname "$0")/../.."
. bin/env.sh
go test -c -tags synctests,verif -o "$BUILD/c39.test" ./checks/c39
exec "$BUILD/c39.test" -test.run '^TestC39$' -test.timeout 0
