// Package sbroker is a scripted Kafka broker for harnesses that run the real
// kgo client inside a testing/synctest bubble without kfake: the client is
// given Broker.Dial as its kgo.Dialer; every dial creates an in-memory
// buffered connection whose server side is read by a harness goroutine that
// parses Kafka request frames and answers per script.
//
// Connection 1 (the first dial) follows Broker.Script: an ordered list of
// steps, each gated on the number of (non-handshake) requests received so far
// and a delay in virtual time, that sends arbitrary bytes or closes the
// connection. Every later connection is answered honestly and immediately by
// Broker.Honest. The ApiVersions handshake (first ApiVersions request of a
// connection) is always answered honestly with Broker.Advertise.
//
// Everything is recorded (requests received with arrival time, bytes sent,
// whether the broker closed the connection) so that a reference model can be
// evaluated against exactly what happened.
package sbroker

import (
	"context"
	"encoding/binary"
	"errors"
	"io"
	"net"
	"os"
	"sync"
	"time"

	"github.com/twmb/franz-go/pkg/kbin"
	"github.com/twmb/franz-go/pkg/kmsg"
)

// ---------------------------------------------------------------- buffered pipe

// half is one direction of a connection: an unbounded byte queue.
type half struct {
	mu      sync.Mutex
	buf     []byte
	wclosed bool          // the writing side closed: reader sees EOF after draining
	rclosed bool          // the reading side closed: writer sees ErrClosedPipe
	wake    chan struct{} // closed and replaced on every state change
}

func newHalf() *half { return &half{wake: make(chan struct{})} }

func (h *half) signalLocked() {
	close(h.wake)
	h.wake = make(chan struct{})
}

// Conn is one end of an in-memory, TCP-like connection: writes never block
// (unbounded buffer), reads block until data, EOF, local close or deadline.
type Conn struct {
	rd, wr *half
	name   string

	dmu       sync.Mutex
	rdeadline time.Time
	wdeadline time.Time
	dchange   chan struct{} // closed and replaced when the read deadline changes
	closed    bool
}

// Pipe returns the two ends of a buffered in-memory connection.
func Pipe() (client, server *Conn) {
	a, b := newHalf(), newHalf()
	client = &Conn{rd: a, wr: b, name: "client", dchange: make(chan struct{})}
	server = &Conn{rd: b, wr: a, name: "server", dchange: make(chan struct{})}
	return client, server
}

type addr string

func (a addr) Network() string { return "sbroker" }
func (a addr) String() string  { return string(a) }

func (c *Conn) LocalAddr() net.Addr  { return addr(c.name) }
func (c *Conn) RemoteAddr() net.Addr { return addr(c.name + "-peer") }

func (c *Conn) Read(p []byte) (int, error) {
	for {
		c.dmu.Lock()
		dl, dch, closed := c.rdeadline, c.dchange, c.closed
		c.dmu.Unlock()
		if closed {
			return 0, io.ErrClosedPipe
		}
		c.rd.mu.Lock()
		if len(c.rd.buf) > 0 {
			n := copy(p, c.rd.buf)
			c.rd.buf = c.rd.buf[n:]
			c.rd.mu.Unlock()
			return n, nil
		}
		if c.rd.wclosed {
			c.rd.mu.Unlock()
			return 0, io.EOF
		}
		wake := c.rd.wake
		c.rd.mu.Unlock()
		if len(p) == 0 {
			return 0, nil
		}
		var timer *time.Timer
		var tc <-chan time.Time
		if !dl.IsZero() {
			d := time.Until(dl)
			if d <= 0 {
				return 0, os.ErrDeadlineExceeded
			}
			timer = time.NewTimer(d)
			tc = timer.C
		}
		select {
		case <-wake:
		case <-dch:
		case <-tc:
		}
		if timer != nil {
			timer.Stop()
		}
	}
}

func (c *Conn) Write(p []byte) (int, error) {
	c.dmu.Lock()
	dl, closed := c.wdeadline, c.closed
	c.dmu.Unlock()
	if closed {
		return 0, io.ErrClosedPipe
	}
	if !dl.IsZero() && time.Until(dl) <= 0 {
		return 0, os.ErrDeadlineExceeded
	}
	c.wr.mu.Lock()
	defer c.wr.mu.Unlock()
	if c.wr.rclosed || c.wr.wclosed {
		return 0, io.ErrClosedPipe
	}
	c.wr.buf = append(c.wr.buf, p...)
	c.wr.signalLocked()
	return len(p), nil
}

func (c *Conn) Close() error {
	c.dmu.Lock()
	if c.closed {
		c.dmu.Unlock()
		return nil
	}
	c.closed = true
	close(c.dchange)
	c.dchange = make(chan struct{})
	c.dmu.Unlock()
	c.wr.mu.Lock()
	c.wr.wclosed = true
	c.wr.signalLocked()
	c.wr.mu.Unlock()
	c.rd.mu.Lock()
	c.rd.rclosed = true
	c.rd.signalLocked()
	c.rd.mu.Unlock()
	return nil
}

func (c *Conn) SetDeadline(t time.Time) error {
	c.SetReadDeadline(t)
	return c.SetWriteDeadline(t)
}

func (c *Conn) SetReadDeadline(t time.Time) error {
	c.dmu.Lock()
	c.rdeadline = t
	close(c.dchange)
	c.dchange = make(chan struct{})
	c.dmu.Unlock()
	return nil
}

func (c *Conn) SetWriteDeadline(t time.Time) error {
	c.dmu.Lock()
	c.wdeadline = t
	c.dmu.Unlock()
	return nil
}

// ---------------------------------------------------------------- frames

// Request is one parsed request frame.
type Request struct {
	Key     int16
	Version int16
	Corr    int32
	Payload []byte // everything after the 4-byte size
}

// ReadRequest reads one request frame: 4-byte size, then key int16, version
// int16, correlation id int32, client id, (tag buffer), body.
func ReadRequest(r io.Reader) (*Request, error) {
	var sz [4]byte
	if _, err := io.ReadFull(r, sz[:]); err != nil {
		return nil, err
	}
	n := int32(binary.BigEndian.Uint32(sz[:]))
	if n < 8 || n > 1<<24 {
		return nil, errors.New("sbroker: bad request size")
	}
	buf := make([]byte, n)
	if _, err := io.ReadFull(r, buf); err != nil {
		return nil, err
	}
	return &Request{
		Key:     int16(binary.BigEndian.Uint16(buf)),
		Version: int16(binary.BigEndian.Uint16(buf[2:])),
		Corr:    int32(binary.BigEndian.Uint32(buf[4:])),
		Payload: buf,
	}, nil
}

// Decode decodes the request body with kmsg (header: client id nullable
// string, then a tag buffer if the request version is flexible).
func (q *Request) Decode() (kmsg.Request, error) {
	req := kmsg.RequestForKey(q.Key)
	if req == nil {
		return nil, errors.New("sbroker: unknown request key")
	}
	req.SetVersion(q.Version)
	r := kbin.Reader{Src: q.Payload[8:]}
	r.NullableString()
	if req.IsFlexible() {
		for n := r.Uvarint(); n > 0; n-- {
			r.Uvarint()
			r.Span(int(r.Uvarint()))
		}
	}
	if err := req.ReadFrom(r.Src); err != nil {
		return nil, err
	}
	return req, nil
}

// ResponseFrame frames resp (size, correlation id, empty tag buffer if the
// response header is flexible, body).
func ResponseFrame(resp kmsg.Response, corr int32) []byte {
	b := make([]byte, 8, 128)
	binary.BigEndian.PutUint32(b[4:], uint32(corr))
	if resp.IsFlexible() && resp.Key() != 18 {
		b = append(b, 0)
	}
	b = resp.AppendTo(b)
	binary.BigEndian.PutUint32(b, uint32(len(b)-4))
	return b
}

// ApiVersionsFrame builds an honest ApiVersions response of version ver:
// every key with a kmsg request type at [0, kmsg max], except as changed by
// adjust (return false to omit the key).
func ApiVersionsFrame(ver int16, corr int32, adjust func(ak *kmsg.ApiVersionsResponseApiKey) bool) []byte {
	resp := kmsg.NewPtrApiVersionsResponse()
	if ver > resp.MaxVersion() {
		ver = resp.MaxVersion()
	}
	resp.Version = ver
	for k := int16(0); k <= kmsg.MaxKey; k++ {
		r := kmsg.RequestForKey(k)
		if r == nil {
			continue
		}
		ak := kmsg.NewApiVersionsResponseApiKey()
		ak.ApiKey, ak.MinVersion, ak.MaxVersion = k, 0, r.MaxVersion()
		if adjust != nil && !adjust(&ak) {
			continue
		}
		resp.ApiKeys = append(resp.ApiKeys, ak)
	}
	return ResponseFrame(resp, corr)
}

// ---------------------------------------------------------------- scripted broker

// Step is one action of the script of connection 1.
type Step struct {
	Need  int           `json:"need"`            // wait until this many non-handshake requests have been received on the connection
	Delay time.Duration `json:"delay"`           // then wait this long (virtual time)
	Send  []byte        `json:"send,omitempty"`  // then send these bytes
	Close bool          `json:"close,omitempty"` // and/or close the connection
}

// ReqLog is one non-handshake request received.
type ReqLog struct {
	Req *Request
	At  time.Duration // since Broker.Start
}

// ConnLog is everything that happened on one connection.
type ConnLog struct {
	ID         int
	Handshakes []int16  // versions of the handshake requests
	Reqs       []ReqLog // non-handshake requests in arrival order (slot = index)
	Sent       []byte   // bytes sent after the handshake (script or honest answers)
	Closed     bool     // the broker closed the connection
	ClosedAt   time.Duration
	StepsDone  int
}

// Broker is the scripted broker of one execution.
type Broker struct {
	// Advertise adjusts the honest ApiVersions answer (may be nil).
	Advertise func(ak *kmsg.ApiVersionsResponseApiKey) bool
	// Script drives connection 1 after its handshake.
	Script []Step
	// Honest answers a request on connections >= 2 (nil result: close).
	Honest func(conn, slot int, q *Request) []byte

	start time.Time
	mu    sync.Mutex
	conns []*ConnLog
	ends  []*Conn
	stop  chan struct{}
	once  sync.Once
}

// Start must be called inside the bubble before the client is created.
func (b *Broker) Start() {
	b.start = time.Now()
	b.stop = make(chan struct{})
}

// Stop closes every connection; all broker goroutines exit.
func (b *Broker) Stop() {
	b.once.Do(func() { close(b.stop) })
	b.mu.Lock()
	ends := b.ends
	b.ends = nil
	b.mu.Unlock()
	for _, c := range ends {
		c.Close()
	}
}

// Conns returns a snapshot of the connection logs.
func (b *Broker) Conns() []ConnLog {
	b.mu.Lock()
	defer b.mu.Unlock()
	out := make([]ConnLog, len(b.conns))
	for i, c := range b.conns {
		out[i] = *c
		out[i].Reqs = append([]ReqLog(nil), c.Reqs...)
		out[i].Sent = append([]byte(nil), c.Sent...)
		out[i].Handshakes = append([]int16(nil), c.Handshakes...)
	}
	return out
}

// Dial is the kgo.Dialer.
func (b *Broker) Dial(_ context.Context, _, _ string) (net.Conn, error) {
	cli, srv := Pipe()
	b.mu.Lock()
	select {
	case <-b.stop:
		b.mu.Unlock()
		return nil, errors.New("sbroker: stopped")
	default:
	}
	log := &ConnLog{ID: len(b.conns) + 1}
	b.conns = append(b.conns, log)
	b.ends = append(b.ends, cli, srv)
	b.mu.Unlock()
	arrived := make(chan struct{}, 1)
	go b.read(srv, log, arrived)
	if log.ID == 1 {
		go b.run(srv, log, arrived)
	}
	return cli, nil
}

func (b *Broker) send(conn *Conn, log *ConnLog, p []byte) error {
	if _, err := conn.Write(p); err != nil {
		return err
	}
	b.mu.Lock()
	log.Sent = append(log.Sent, p...)
	b.mu.Unlock()
	return nil
}

func (b *Broker) closeConn(conn *Conn, log *ConnLog) {
	b.mu.Lock()
	if !log.Closed {
		log.Closed = true
		log.ClosedAt = time.Since(b.start)
	}
	b.mu.Unlock()
	conn.Close()
}

// read parses request frames; it answers handshakes (and, on connections >= 2,
// everything) itself and wakes the script runner of connection 1.
func (b *Broker) read(conn *Conn, log *ConnLog, arrived chan struct{}) {
	handshook := false
	for {
		q, err := ReadRequest(conn)
		if err != nil {
			return
		}
		if q.Key == 18 && !handshook {
			handshook = true
			b.mu.Lock()
			log.Handshakes = append(log.Handshakes, q.Version)
			b.mu.Unlock()
			if _, err := conn.Write(ApiVersionsFrame(q.Version, q.Corr, b.Advertise)); err != nil {
				return
			}
			continue
		}
		b.mu.Lock()
		slot := len(log.Reqs)
		log.Reqs = append(log.Reqs, ReqLog{Req: q, At: time.Since(b.start)})
		b.mu.Unlock()
		if log.ID == 1 {
			select {
			case arrived <- struct{}{}:
			default:
			}
			continue
		}
		var out []byte
		if b.Honest != nil {
			out = b.Honest(log.ID, slot, q)
		}
		if out == nil {
			b.closeConn(conn, log)
			return
		}
		if b.send(conn, log, out) != nil {
			return
		}
	}
}

// run executes the script of connection 1.
func (b *Broker) run(conn *Conn, log *ConnLog, arrived chan struct{}) {
	for _, st := range b.Script {
		for {
			b.mu.Lock()
			n := len(log.Reqs)
			b.mu.Unlock()
			if n >= st.Need {
				break
			}
			select {
			case <-arrived:
			case <-b.stop:
				return
			}
		}
		if st.Delay > 0 {
			t := time.NewTimer(st.Delay)
			select {
			case <-t.C:
			case <-b.stop:
				t.Stop()
				return
			}
		}
		if len(st.Send) > 0 {
			if b.send(conn, log, st.Send) != nil {
				return
			}
		}
		if st.Close {
			b.closeConn(conn, log)
		}
		b.mu.Lock()
		log.StepsDone++
		b.mu.Unlock()
		if st.Close {
			return
		}
	}
}
