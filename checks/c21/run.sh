#!/bin/bash
# C21: request versions are negotiated within all bounds (scripted broker,
# bounded exhaustive configuration grid, each case in a synctest bubble).
# The whole check runs in package kgo (needs the unexported pin context).
#   run.sh                      run the tier in $VERIF_TIER
#   run.sh --replay <artefact>  re-run one violation artefact (or a literal case JSON) verbosely
set -eu
cd "$(dirname "$0")/../.."
. bin/env.sh
if [ "${1:-}" = "--replay" ]; then
  case "$2" in
    \{*) export C21_REPLAY="$2" ;;
    *) export C21_REPLAY="$(readlink -f "$2")" ;;
  esac
  export VERIF_REPLAY=1
fi
inpkg_test pkg/kgo "$VERIF_ROOT/hooks/inpkg/c21_kgo_test.go" "$BUILD/c21.test" -tags synctests,verif || { echo "INFRA-ERROR: build failed" >&2; exit 2; }
exec "$BUILD/c21.test" -test.run '^TestVerifC21$' -test.timeout 0
