package main

// Records, the round-trip oracle and the classification of failures.

import (
	"bufio"
	"bytes"
	"fmt"
	"io"
	"strconv"
	"testing/iotest"
	"time"

	"github.com/twmb/franz-go/pkg/kgo"
)

type hdr struct{ k, v []byte }

// rec is the harness's own record: plain data, independent of kgo.Record.
type rec struct {
	topic, key, value []byte
	hdrs              []hdr
	num               [6]int64 // partition, offset, leader epoch, timestamp (ms), producer id, producer epoch
	emptyNonNil       bool     // write empty key/value/header value as []byte{} instead of nil
}

func (r *rec) text(t int) []byte {
	switch t {
	case tTopic:
		return r.topic
	case tKey:
		return r.key
	}
	return r.value
}

func bslice(b []byte, nonNil bool) []byte {
	if len(b) == 0 {
		if nonNil {
			return []byte{}
		}
		return nil
	}
	return b
}

func (r *rec) toKgo(l *layout) *kgo.Record {
	k := &kgo.Record{
		Topic:         string(r.topic),
		Key:           bslice(r.key, r.emptyNonNil),
		Value:         bslice(r.value, r.emptyNonNil),
		Partition:     int32(r.num[0]),
		Offset:        r.num[1],
		LeaderEpoch:   int32(r.num[2]),
		ProducerID:    r.num[4],
		ProducerEpoch: int16(r.num[5]),
	}
	if l.has(tTime) {
		k.Timestamp = time.UnixMilli(r.num[3])
	}
	for _, h := range r.hdrs {
		k.Headers = append(k.Headers, kgo.RecordHeader{Key: string(h.k), Value: bslice(h.v, r.emptyNonNil)})
	}
	return k
}

// mismatch returns the first carried field (layout order is irrelevant here:
// target order) that got does not reproduce, or -1.
func mismatch(l *layout, exp *rec, got *kgo.Record) int {
	for t := 0; t < nTargets; t++ {
		if !l.has(t) {
			continue
		}
		if !fieldEq(t, exp, got) {
			return t
		}
	}
	return -1
}

func fieldEq(t int, exp *rec, got *kgo.Record) bool {
	switch t {
	case tTopic:
		return got.Topic == string(exp.topic)
	case tKey:
		return bytes.Equal(got.Key, exp.key) // nil and empty are not distinguished (not documented)
	case tValue:
		return bytes.Equal(got.Value, exp.value)
	case tHdrs:
		if len(got.Headers) != len(exp.hdrs) {
			return false
		}
		for i, h := range exp.hdrs {
			if got.Headers[i].Key != string(h.k) || !bytes.Equal(got.Headers[i].Value, h.v) {
				return false
			}
		}
		return true
	case tPart:
		return int64(got.Partition) == exp.num[0]
	case tOff:
		return got.Offset == exp.num[1]
	case tEpoch:
		return int64(got.LeaderEpoch) == exp.num[2]
	case tTime:
		return got.Timestamp.UnixMilli() == exp.num[3]
	case tPid:
		return got.ProducerID == exp.num[4]
	case tPepoch:
		return int64(got.ProducerEpoch) == exp.num[5]
	}
	return false
}

// ---------------------------------------------------------------- running

const (
	rkBytes   = iota // bytes.Reader: everything available at once
	rkOneByte        // one byte per Read
	rkDataErr        // last data returned together with io.EOF
	nReaderKinds
)

var readerKindNames = []string{"bytes.Reader", "iotest.OneByteReader", "iotest.DataErrReader"}

func mkReader(rk int, b []byte) io.Reader {
	switch rk {
	case rkOneByte:
		return iotest.OneByteReader(bytes.NewReader(b))
	case rkDataErr:
		return iotest.DataErrReader(bytes.NewReader(b))
	}
	return bytes.NewReader(b)
}

// source returns the io.Reader handed to NewRecordReader. With br == nil it
// is the raw reader (RecordReader wraps it in its own bufio.Reader, 4 KiB per
// call); otherwise the worker's reusable *bufio.Reader is reset onto it, which
// bufio.NewReader inside NewRecordReader adopts as is. Both are plain
// io.Readers as far as the API is concerned.
func source(br *bufio.Reader, rk int, b []byte) io.Reader {
	if br == nil {
		return mkReader(rk, b)
	}
	br.Reset(mkReader(rk, b))
	return br
}

// pat is the deterministic payload of the long-field family: every byte value
// occurs, and a shift by any amount below 64 KiB changes it.
func pat(seed byte, n int) []byte {
	b := make([]byte, n)
	for i := range b {
		b[i] = byte(i*7 + i/253 + int(seed))
	}
	return b
}

// abbr quotes a payload, shortening long ones.
func abbr(b []byte) string {
	if len(b) <= 48 {
		return strconv.Quote(string(b))
	}
	return fmt.Sprintf("%q...(%d bytes)", b[:16], len(b))
}

type failure struct {
	kind   string // see classify
	idx    int    // record index at which it happened (len(recs) = the read after the last record)
	target int    // field-mismatch: the field
	got    *kgo.Record
	err    string
}

func gotString(l *layout, g *kgo.Record) string {
	if g == nil {
		return "<none>"
	}
	s := ""
	for t := 0; t < nTargets; t++ {
		if !l.has(t) {
			continue
		}
		switch t {
		case tTopic:
			s += "topic=" + abbr([]byte(g.Topic)) + " "
		case tKey:
			s += "key=" + abbr(g.Key) + " "
		case tValue:
			s += "value=" + abbr(g.Value) + " "
		case tHdrs:
			s += "headers=["
			for i, h := range g.Headers {
				if i == 4 && len(g.Headers) > 8 {
					s += fmt.Sprintf("...(%d headers) ", len(g.Headers))
					break
				}
				s += abbr([]byte(h.Key)) + ":" + abbr(h.Value) + " "
			}
			s += "] "
		case tPart:
			s += fmt.Sprintf("partition=%d ", g.Partition)
		case tOff:
			s += fmt.Sprintf("offset=%d ", g.Offset)
		case tEpoch:
			s += fmt.Sprintf("leader-epoch=%d ", g.LeaderEpoch)
		case tTime:
			s += fmt.Sprintf("timestamp-ms=%d ", g.Timestamp.UnixMilli())
		case tPid:
			s += fmt.Sprintf("producer-id=%d ", g.ProducerID)
		case tPepoch:
			s += fmt.Sprintf("producer-epoch=%d ", g.ProducerEpoch)
		}
	}
	return s
}

// write formats the stream with the real formatter; bounds[i] is the offset at
// which record i ends.
func write(l *layout, f *kgo.RecordFormatter, recs []rec) (stream []byte, bounds []int) {
	var part kgo.FetchPartition
	for i := range recs {
		k := recs[i].toKgo(l)
		if i%2 == 0 {
			stream = f.AppendRecord(stream, k)
		} else {
			stream = f.AppendPartitionRecord(stream, &part, k)
		}
		bounds = append(bounds, len(stream))
	}
	return stream, bounds
}

// readOne alternates between the two read entry points.
func readOne(rd *kgo.RecordReader, i int) (*kgo.Record, error) {
	if i%2 == 0 {
		return rd.ReadRecord()
	}
	r := new(kgo.Record)
	err := rd.ReadRecordInto(r)
	return r, err
}

// readBack is the oracle: a RecordReader with the same layout string must
// return the records field for field and then io.EOF. reuse, if non-nil, is a
// reader of this layout that has so far only read complete streams up to their
// io.EOF; it is pointed at the new stream with SetReader (a failure seen that
// way is re-run by the caller with a fresh reader before it counts).
func readBack(l *layout, stream []byte, recs []rec, rk int, br *bufio.Reader, reuse *kgo.RecordReader) (*failure, *kgo.RecordReader) {
	rd := reuse
	if rd != nil {
		rd.SetReader(source(br, rk, stream))
	} else {
		var err error
		if rd, err = kgo.NewRecordReader(source(br, rk, stream), l.str); err != nil {
			return &failure{kind: "reader-rejects-layout", err: err.Error()}, nil
		}
	}
	return readAll(l, rd, recs), rd
}

func readAll(l *layout, rd *kgo.RecordReader, recs []rec) *failure {
	for i := range recs {
		got, err := readOne(rd, i)
		switch {
		case err == io.EOF:
			return &failure{kind: "early-eof", idx: i, err: err.Error()}
		case err == io.ErrUnexpectedEOF:
			return &failure{kind: "unexpected-eof", idx: i, err: err.Error()}
		case err != nil:
			return &failure{kind: "read-error", idx: i, err: err.Error()}
		}
		if t := mismatch(l, &recs[i], got); t >= 0 {
			return &failure{kind: "field-mismatch", idx: i, target: t, got: got}
		}
	}
	got, err := readOne(rd, len(recs))
	switch {
	case err == io.EOF:
		return nil
	case err == nil:
		return &failure{kind: "extra-record-at-end", idx: len(recs), got: got}
	case err == io.ErrUnexpectedEOF:
		return &failure{kind: "unexpected-eof-at-end", idx: len(recs), err: err.Error()}
	}
	return &failure{kind: "error-at-end", idx: len(recs), err: err.Error()}
}

// truncInfo counts what the reader did on truncated streams (information only,
// except a clean io.EOF in place of the cut record, which is a failure).
type truncInfo struct {
	cuts, unexpectedEOF, otherErr, bogusRecord, prefixAnomaly int64
}

// truncated checks "io.EOF exactly at the end" from the other side: for every
// cut strictly inside a record of a stream that round-trips, the ReadRecord
// call that meets the cut record must not return io.EOF (ReadRecord's doc:
// io.EOF only at the start of a new record, io.ErrUnexpectedEOF mid record).
// Nothing else is demanded of a truncated stream.
func truncated(l *layout, stream []byte, bounds []int, recs []rec, ti *truncInfo, br *bufio.Reader) *failure {
	j := 0
	for c := 1; c < len(stream); c++ {
		for j < len(bounds) && bounds[j] <= c {
			j++
		}
		if j > 0 && bounds[j-1] == c {
			continue // a record boundary: a complete, shorter stream
		}
		ti.cuts++
		rd, err := kgo.NewRecordReader(source(br, rkBytes, stream[:c]), l.str)
		if err != nil {
			return &failure{kind: "reader-rejects-layout", err: err.Error()}
		}
		ok := true
		for i := 0; i < j; i++ {
			got, err := readOne(rd, i)
			if err != nil || mismatch(l, &recs[i], got) >= 0 {
				ok = false
				break
			}
		}
		if !ok {
			ti.prefixAnomaly++
			continue
		}
		_, err = readOne(rd, j)
		switch {
		case err == io.EOF:
			return &failure{kind: "clean-eof-mid-record", idx: j, err: "cut at byte " + strconv.Itoa(c) + " of " + strconv.Itoa(len(stream))}
		case err == io.ErrUnexpectedEOF:
			ti.unexpectedEOF++
		case err != nil:
			ti.otherErr++
		default:
			ti.bogusRecord++
		}
	}
	return nil
}

// ---------------------------------------------------------------- classification

// firstEncodedNonEmpty finds, in reading order, the first size-prefixed text
// item of the record whose payload is non-empty and hex/base64 encoded. For
// such an item the formatter's %T/%K/%V prints the raw length while the reader
// documents the size as "the size of the encoded value actually being read".
func firstEncodedNonEmpty(l *layout, exp *rec) (found bool, inHdr bool, target, enc int, payload []byte, last bool) {
	for i, e := range l.es {
		switch e.kind {
		case eText:
			if encoded(e.enc) && len(exp.text(e.target)) > 0 {
				return true, false, e.target, e.enc, exp.text(e.target), i == len(l.es)-1
			}
		case eHdr:
			for _, h := range exp.hdrs {
				for _, ie := range e.inner {
					if ie.kind != eText || !encoded(ie.enc) {
						continue
					}
					p := h.k
					if ie.target == tValue {
						p = h.v
					}
					if len(p) > 0 {
						return true, true, ie.target, ie.enc, p, false
					}
				}
			}
		}
	}
	return false, false, 0, 0, nil, false
}

// classify names the class of a failure. The key is stable: it does not
// contain payload bytes.
func classify(l *layout, recs []rec, fl *failure, wantWhat bool) (key, what string) {
	switch fl.kind {
	case "panic", "formatter-rejects-layout", "reader-rejects-layout", "clean-eof-mid-record":
		return fl.kind, fl.kind + ": " + fl.err
	}
	if fl.idx < len(recs) {
		exp := &recs[fl.idx]
		if found, inHdr, target, enc, payload, last := firstEncodedNonEmpty(l, exp); found {
			key = "size-prefix-raw-length-vs-encoded-length:" + encNames[enc]
			if wantWhat {
				what = fmt.Sprintf("the formatter's size verb prints the raw length (%d) of a %s-encoded field whose encoded form is %d bytes; the reader takes the size as the encoded length, so the field (and everything after it) is misread",
					len(payload), encNames[enc], len(encode(enc, payload)))
			}
			// What the documented reader semantics predict for that field: it
			// reads the first len(payload) encoded bytes and decodes them.
			if !inHdr {
				pref := encode(enc, payload)[:len(payload)]
				dec, derr := decode(enc, pref)
				consistent := true
				switch fl.kind {
				case "early-eof":
					consistent = false
				case "field-mismatch":
					if derr != nil || !fieldEq2(target, dec, fl.got) {
						consistent = false
					}
					for i := range l.es {
						e := l.es[i]
						if e.kind == eText && e.target == target {
							break
						}
						if (e.kind == eText || e.kind == eNum || e.kind == eHdr) && !fieldEq(e.target, exp, fl.got) {
							consistent = false
						}
					}
				default: // an error
					if derr == nil && last {
						consistent = false
					}
				}
				if !consistent {
					key += "+reader-deviates-from-documented-sizing"
					what += "; in addition the reader's result is not what its documented sizing predicts (prefix " + strconv.Quote(string(pref)) + ")"
				}
			}
			return key, what
		}
	}
	// failures that only long fields / many headers provoke get their own class
	sfx := ""
	if l.family == "long-field" || l.family == "many-headers" {
		sfx = "@" + l.family
	}
	switch fl.kind {
	case "field-mismatch":
		f := l.nf[fl.target].label()
		if fl.target <= tValue {
			for _, e := range l.es {
				if e.kind == eText && e.target == fl.target {
					f += "/" + encNames[e.enc]
				}
			}
		}
		if fl.target == tHdrs {
			return "field-mismatch:headers" + sfx, "the headers read back differ from the headers written (count " + f + ", key size " + l.hk.label() + ", value size " + l.hv.label() + ")"
		}
		return "field-mismatch:" + targetNames[fl.target] + ":" + f + sfx, "the record read back differs from the record written in field " + targetNames[fl.target]
	}
	return fl.kind + sfx, fl.kind + ": " + fl.err
}

func fieldEq2(target int, dec []byte, got *kgo.Record) bool {
	switch target {
	case tTopic:
		return got.Topic == string(dec)
	case tKey:
		return bytes.Equal(got.Key, dec)
	}
	return bytes.Equal(got.Value, dec)
}
