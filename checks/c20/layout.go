package main

// The layout mini-language restricted to what BOTH NewRecordFormatter and
// NewRecordReader document as supported, and to fields that are size-prefixed
// or fixed-width (the C20 statement). A layout is a list of elements; it is
// rendered to the layout string handed, unchanged, to both constructors.

import (
	"encoding/base64"
	"encoding/hex"
	"strings"
)

// ---------------------------------------------------------------- numbers

// numFmt is one spelling of a number format inside braces.
type numFmt struct {
	name  string // text inside the braces; "" = verb without braces (documented default: ascii)
	bits  int    // unsigned values 0..2^bits-1 fit the format
	ascii bool   // variable-width decimal: "parse numeric digits until a non-numeric", needs a delimiter
}

// Formats documented by both constructors. Excluded: "hex" (variable width,
// writer only) and "{3}" style fixed sizes (reader only).
var allNF = []numFmt{
	{"", 63, true}, {"ascii", 63, true}, {"number", 63, true},
	{"hex64", 64, false}, {"hex32", 32, false}, {"hex16", 16, false}, {"hex8", 8, false}, {"hex4", 4, false},
	{"big64", 64, false}, {"big32", 32, false}, {"big16", 16, false}, {"big8", 8, false},
	{"little64", 64, false}, {"little32", 32, false}, {"little16", 16, false}, {"little8", 8, false},
	{"byte", 8, false}, {"bool", 1, false},
}

func nfByName(n string) numFmt {
	for _, f := range allNF {
		if f.name == n {
			return f
		}
	}
	panic("no numFmt " + n)
}

func nfSet(names ...string) []numFmt {
	var out []numFmt
	for _, n := range names {
		out = append(out, nfByName(n))
	}
	return out
}

func (f numFmt) label() string {
	if f.name == "" {
		return "default"
	}
	return f.name
}

// maxU is the largest unsigned value of the format, capped at MaxInt64.
func (f numFmt) maxU() int64 {
	if f.bits >= 63 {
		return 1<<63 - 1
	}
	return 1<<uint(f.bits) - 1
}

// ---------------------------------------------------------------- text

const (
	encPlain      = iota // %v
	encPlainBrace        // %v{}
	encHex               // %v{hex}
	encB64               // %v{base64}
	encB64Raw            // %v{base64raw}: only if this tree's reader accepts it
)

var encNames = []string{"plain", "plain{}", "hex", "base64", "base64raw"}
var encBrace = []string{"", "{}", "{hex}", "{base64}", "{base64raw}"}

func encoded(enc int) bool { return enc >= encHex }

func encode(enc int, b []byte) []byte {
	switch enc {
	case encHex:
		return []byte(hex.EncodeToString(b))
	case encB64:
		return []byte(base64.StdEncoding.EncodeToString(b))
	case encB64Raw:
		return []byte(base64.RawStdEncoding.EncodeToString(b))
	}
	return b
}

func decode(enc int, b []byte) ([]byte, error) {
	switch enc {
	case encHex:
		return hex.DecodeString(string(b))
	case encB64:
		return base64.StdEncoding.DecodeString(string(b))
	case encB64Raw:
		return base64.RawStdEncoding.DecodeString(string(b))
	}
	return b, nil
}

// ---------------------------------------------------------------- targets

// Record fields a layout can carry.
const (
	tTopic = iota
	tKey
	tValue
	tHdrs
	tPart
	tOff
	tEpoch
	tTime
	tPid
	tPepoch
	nTargets
)

var targetNames = []string{"topic", "key", "value", "headers", "partition", "offset", "leader-epoch", "timestamp", "producer-id", "producer-epoch"}

// number verbs p o e d x y, index = target - tPart
var numVerbs = []byte{'p', 'o', 'e', 'd', 'x', 'y'}

// largest value of the Go field behind each number verb. The timestamp is a
// time.Time written as UnixNano()/1e6, so it is bounded by MaxInt64/1e6 ms.
const tsMaxMs = (1<<63 - 1) / 1000000

var typeMax = []int64{1<<31 - 1, 1<<63 - 1, 1<<31 - 1, tsMaxMs, 1<<63 - 1, 1<<15 - 1}
var typeMin = []int64{-1 << 31, -1 << 63, -1 << 31, -tsMaxMs, -1 << 63, -1 << 15}
var typeBits = []int{32, 64, 32, 64, 64, 16}

var textVerbs = []byte{'t', 'k', 'v'} // index = target

// ---------------------------------------------------------------- elements

const (
	eLit  = iota // literal text (delimiter / separator)
	eSize        // %T %K %V %H
	eText        // %t %k %v
	eNum         // %p %o %e %d %x %y
	eHdr         // %h{...}
)

type lit struct {
	layout string // how it is spelled in the layout (escapes)
	raw    string // the bytes it stands for
}

type elem struct {
	kind   int
	target int // eSize/eText: tTopic..tHdrs (inside %h{}: tKey/tValue); eNum: tPart..
	nf     numFmt
	enc    int
	lit    lit
	inner  []elem
}

func render(es []elem) string {
	var sb strings.Builder
	for _, e := range es {
		switch e.kind {
		case eLit:
			sb.WriteString(e.lit.layout)
		case eSize:
			sb.WriteByte('%')
			sb.WriteByte("TKVH"[e.target])
			if e.nf.name != "" {
				sb.WriteString("{" + e.nf.name + "}")
			}
		case eText:
			sb.WriteByte('%')
			sb.WriteByte(textVerbs[e.target])
			sb.WriteString(encBrace[e.enc])
		case eNum:
			sb.WriteByte('%')
			sb.WriteByte(numVerbs[e.target-tPart])
			if e.nf.name != "" {
				sb.WriteString("{" + e.nf.name + "}")
			}
		case eHdr:
			sb.WriteString("%h{")
			sb.WriteString(render(e.inner))
			sb.WriteString("}")
		}
	}
	return sb.String()
}

func litElem(l lit) []elem {
	if l.layout == "" {
		return nil
	}
	return []elem{{kind: eLit, lit: l}}
}

// sizeElems is "%T{nf}" followed by the delimiter if the format is ascii.
func sizeElems(target int, nf numFmt, delim lit) []elem {
	es := []elem{{kind: eSize, target: target, nf: nf}}
	if nf.ascii {
		es = append(es, litElem(delim)...)
	}
	return es
}

// textField: size prefix (+ delimiter) immediately followed by the payload.
func textField(target int, nf numFmt, delim lit, enc int) []elem {
	return append(sizeElems(target, nf, delim), elem{kind: eText, target: target, enc: enc})
}

func numField(target int, nf numFmt, delim lit) []elem {
	es := []elem{{kind: eNum, target: target, nf: nf}}
	if nf.ascii {
		es = append(es, litElem(delim)...)
	}
	return es
}

func hdrField(cnt numFmt, delim lit, inner []elem) []elem {
	return append(sizeElems(tHdrs, cnt, delim), elem{kind: eHdr, target: tHdrs, inner: inner})
}

func cat(parts ...[]elem) []elem {
	var out []elem
	for _, p := range parts {
		out = append(out, p...)
	}
	return out
}

// field is one unit used to build composite layouts.
type field struct {
	target int
	es     []elem
}

// layout is a complete layout plus what the harness needs to know about it.
type layout struct {
	es      []elem
	str     string
	family  string
	carries uint // bit per target
	// format used for each target: size prefix for text, count for headers, the
	// number itself for numeric verbs; hk/hv: the prefixes inside %h{}.
	nf     [nTargets]numFmt
	hk, hv numFmt
}

func mkLayout(family string, es []elem) *layout {
	l := &layout{es: es, str: render(es), family: family}
	for _, e := range es {
		switch e.kind {
		case eSize:
			l.nf[e.target] = e.nf
		case eText:
			l.carries |= 1 << uint(e.target)
		case eNum:
			l.carries |= 1 << uint(e.target)
			l.nf[e.target] = e.nf
		case eHdr:
			l.carries |= 1 << tHdrs
			for _, ie := range e.inner {
				if ie.kind == eSize && ie.target == tKey {
					l.hk = ie.nf
				}
				if ie.kind == eSize && ie.target == tValue {
					l.hv = ie.nf
				}
			}
		}
	}
	return l
}

func (l *layout) has(t int) bool { return l.carries&(1<<uint(t)) != 0 }

func (l *layout) carriedNames() []string {
	var out []string
	for t := 0; t < nTargets; t++ {
		if l.has(t) {
			out = append(out, targetNames[t])
		}
	}
	return out
}
