#!/bin/bash
set -eu
cd "$(dirname "$0")/../.."
. bin/env.sh                      # sets REPO, BUILD, GOFLAGS, VERIF_TIER, VERIF_WORKERS
go build -o "$BUILD/c20" ./checks/c20
exec "$BUILD/c20" "$@"
