// C20: output of kgo.RecordFormatter reads back with kgo.RecordReader.
//
// Bounded exhaustive exploration: every layout of a small size-prefixed /
// fixed-width layout grammar (single fields, ordered pairs, sizes-first and
// full concatenations) x every record of a small record space x streams of
// 1..3 records; the real formatter writes, the real reader (same layout
// string) must return every carried field and then io.EOF.
package main

import (
	"bufio"
	"bytes"
	"encoding/hex"
	"encoding/json"
	"fmt"
	"hash/fnv"
	"os"
	"runtime/pprof"
	"sort"
	"strconv"
	"sync"
	"time"

	"github.com/twmb/franz-go/pkg/kgo"
	"verif.local/ev"
)

// ---------------------------------------------------------------- bounds

type bounds struct {
	alphabet   []byte // payload bytes for the exhaustive single-field sweeps
	maxLen     int
	delims     []lit // delimiters after an ascii number
	wraps      []wrap
	encs       []int
	pairNF     []numFmt // formats used for ordered pairs under every wrap
	pairFullNF []numFmt // formats used for ordered pairs under the empty wrap
	pool       int      // composite record templates used for streams
	hdrNF      []numFmt // formats for the key x value cross product inside %h{}
	hdrPool    int
	hdrPool2   int
	rkAll      bool // all reader kinds for every family
}

type wrap struct{ pre, sep, suf lit }

var (
	sp        = lit{" ", " "}
	allDelims = []lit{sp, {`\n`, "\n"}, {`\t`, "\t"}, {":", ":"}, {"%%", "%"}, {"%}", "}"}, {"%{", "{"},
		{`\x00`, "\x00"}, {`\xff`, "\xff"}, {"=>", "=>"}, {"-", "-"}, {".", "."}, {"a", "a"}, {"é", "é"}}
	allWraps = []wrap{
		{},
		{lit{"%{", "{"}, lit{"%%", "%"}, lit{"%}", "}"}},
		{lit{}, lit{`\n`, "\n"}, lit{`\n`, "\n"}},
		{lit{"[", "["}, lit{"|", "|"}, lit{`]\r\n`, "]\r\n"}},
		{lit{`\xff`, "\xff"}, lit{`\x00`, "\x00"}, lit{"é", "é"}},
	}
	fullAlphabet = []byte{0x00, '%', '\n', '}', '{', 'a', 'b', 0xff, '1', ' '}
)

func tierBounds(readerEncs []int) bounds {
	if ev.Thorough() {
		return bounds{
			alphabet: fullAlphabet, maxLen: 3, delims: allDelims, wraps: allWraps, encs: readerEncs,
			pairNF:     nfSet("", "hex8", "hex32", "big16", "little32", "byte"),
			pairFullNF: allNF, pool: 5,
			hdrNF:   nfSet("", "hex4", "hex16", "big32", "little16", "byte"),
			hdrPool: 6, hdrPool2: 4, rkAll: true,
		}
	}
	var encs []int
	for _, e := range readerEncs {
		if e != encPlainBrace {
			encs = append(encs, e)
		}
	}
	return bounds{
		alphabet: []byte{0x00, '%', '\n', '}', 'a', 0xff, '1'}, maxLen: 3, delims: allDelims[:3], wraps: allWraps[:2], encs: encs,
		pairNF:     nfSet("", "hex8", "big16", "little32", "byte"),
		pairFullNF: nil, pool: 4,
		hdrNF:   nfSet("", "hex16", "little16", "byte"),
		hdrPool: 4, hdrPool2: 3, rkAll: false,
	}
}

// ---------------------------------------------------------------- record space

func allStrings(alpha []byte, maxLen int) [][]byte {
	out := [][]byte{{}}
	prev := [][]byte{{}}
	for n := 1; n <= maxLen; n++ {
		var cur [][]byte
		for _, p := range prev {
			for _, c := range alpha {
				s := append(append([]byte{}, p...), c)
				cur = append(cur, s)
			}
		}
		out = append(out, cur...)
		prev = cur
	}
	return out
}

func fitLen(nf numFmt, p []byte) []byte {
	if m := nf.maxU(); int64(len(p)) > m {
		return p[:m]
	}
	return p
}

// payload pool for multi-record streams of single text fields
var textPool = [][]byte{{}, {0}, []byte("%"), []byte("\n}"), []byte("ab"), {0xff}, []byte("{1 "), {'a', 0, 0xff}}

var hdrPayloads = [][]byte{{}, []byte("a"), {0, '%'}, {'}', '\n', 0xff}, []byte("{"), []byte("1 b")}

func setText(r *rec, t int, p []byte) {
	switch t {
	case tTopic:
		r.topic = p
	case tKey:
		r.key = p
	default:
		r.value = p
	}
}

// sequences calls fn with every sequence over n items of length lo..hi.
func sequences(n, lo, hi int, fn func([]int)) {
	var rec func(cur []int, ln int)
	rec = func(cur []int, ln int) {
		if len(cur) == ln {
			fn(cur)
			return
		}
		for i := 0; i < n; i++ {
			rec(append(cur, i), ln)
		}
	}
	for ln := lo; ln <= hi; ln++ {
		rec(make([]int, 0, ln), ln)
	}
}

var (
	payloadOnce sync.Once
	payloadAll  [][]byte
)

func textStreams(l *layout, b *bounds, t int) [][]rec {
	nf := l.nf[t]
	var out [][]rec
	payloadOnce.Do(func() { payloadAll = allStrings(b.alphabet, b.maxLen) })
	for _, p := range payloadAll {
		var r rec
		setText(&r, t, fitLen(nf, p))
		out = append(out, []rec{r})
		if len(p) == 0 {
			r.emptyNonNil = true
			out = append(out, []rec{r})
		}
	}
	sequences(len(textPool), 2, 3, func(ix []int) {
		s := make([]rec, len(ix))
		for i, x := range ix {
			setText(&s[i], t, fitLen(nf, textPool[x]))
			s[i].emptyNonNil = i == 1
		}
		out = append(out, s)
	})
	return out
}

func negOK(t int, nf numFmt) bool { return !nf.ascii && nf.bits >= typeBits[t-tPart] }

func numHi(t int, nf numFmt) int64 {
	hi := nf.maxU()
	if m := typeMax[t-tPart]; m < hi {
		hi = m
	}
	return hi
}

var numCands = []int64{0, 1, 2, 9, 10, 15, 16, 0x7f, 0x80, 0xff, 0x100, 0x0102, 0x7fff, 0x8000, 0xffff, 0x10000, 0x01020304,
	0x7fffffff, 0x80000000, 0xffffffff, 1 << 32, 0x010203040506, 0x0102030405060708, 1 << 62}

func numValues(t int, nf numFmt) []int64 {
	hi := numHi(t, nf)
	seen := map[int64]bool{}
	var out []int64
	add := func(v int64) {
		if !seen[v] {
			seen[v] = true
			out = append(out, v)
		}
	}
	for _, v := range append([]int64{hi, hi - 1}, numCands...) {
		if v >= 0 && v <= hi {
			add(v)
		}
	}
	if negOK(t, nf) {
		lo := typeMin[t-tPart]
		for _, v := range []int64{-1, -2, -0x0102, lo, lo + 1} {
			if v >= lo {
				add(v)
			}
		}
	}
	return out
}

const (
	lvZero = iota
	lvOne
	lvMax
	lvPat
	lvNeg
	lvMin
)

func resolve(lv, t int, nf numFmt) int64 {
	hi := numHi(t, nf)
	switch lv {
	case lvOne:
		return 1
	case lvMax:
		return hi
	case lvPat:
		for _, p := range []int64{0x0102030405060708, 0x010203040506, 0x01020304, 0x0102, 0x0d, 1} {
			if p <= hi {
				return p
			}
		}
	case lvNeg:
		if negOK(t, nf) {
			return -1
		}
		if hi > 0 {
			return hi - 1
		}
	case lvMin:
		if negOK(t, nf) {
			return typeMin[t-tPart]
		}
		return hi
	}
	return 0
}

func numStreams(l *layout, t int) [][]rec {
	nf := l.nf[t]
	var out [][]rec
	for _, v := range numValues(t, nf) {
		var r rec
		r.num[t-tPart] = v
		out = append(out, []rec{r})
	}
	lvs := []int{lvZero, lvOne, lvMax, lvPat, lvNeg}
	sequences(len(lvs), 2, 3, func(ix []int) {
		s := make([]rec, len(ix))
		for i, x := range ix {
			s[i].num[t-tPart] = resolve(lvs[x], t, nf)
		}
		out = append(out, s)
	})
	return out
}

func fitHdrs(l *layout, hs []hdr) []hdr {
	if m := l.nf[tHdrs].maxU(); int64(len(hs)) > m {
		hs = hs[:m]
	}
	out := make([]hdr, len(hs))
	for i, h := range hs {
		out[i] = hdr{fitLen(l.hk, h.k), fitLen(l.hv, h.v)}
	}
	return out
}

func hdrStreams(l *layout, b *bounds) [][]rec {
	var out [][]rec
	one := func(hs []hdr) { out = append(out, []rec{{hdrs: fitHdrs(l, hs)}}) }
	one(nil)
	p1 := hdrPayloads[:b.hdrPool]
	for _, k := range p1 {
		for _, v := range p1 {
			one([]hdr{{k, v}})
		}
	}
	p2 := hdrPayloads[:b.hdrPool2]
	for _, k := range p2 {
		for _, v := range p2 {
			for _, k2 := range p2 {
				for _, v2 := range p2 {
					one([]hdr{{k, v}, {k2, v2}})
				}
			}
		}
	}
	sets := [][]hdr{nil, {{[]byte("a"), nil}}, {{nil, []byte("b")}, {nil, nil}}, {{[]byte("}\n\xff"), []byte("\x00%")}, {[]byte("a"), []byte("a")}}}
	sequences(len(sets), 2, 3, func(ix []int) {
		s := make([]rec, len(ix))
		for i, x := range ix {
			s[i].hdrs = fitHdrs(l, sets[x])
			s[i].emptyNonNil = i == 2
		}
		out = append(out, s)
	})
	return out
}

// composite record templates
type tmpl struct {
	topic, key, value string
	hdrs              []hdr
	lv                [6]int
}

var tmpls = []tmpl{
	{},
	{"t", "\x00", "%", []hdr{{[]byte("a"), []byte("\n")}}, [6]int{lvOne, lvOne, lvOne, lvOne, lvOne, lvOne}},
	{"ab}", "{\xff1", "\n%}", []hdr{{nil, nil}, {[]byte("k\x00%"), []byte("\xffv ")}}, [6]int{lvMax, lvMax, lvMax, lvMax, lvMax, lvMax}},
	{"1", "", "a\x00\xff", []hdr{{[]byte("h"), nil}, {[]byte("h"), []byte("12")}}, [6]int{lvPat, lvPat, lvPat, lvPat, lvPat, lvPat}},
	{" 0", "}}", "", []hdr{{[]byte("\xff\xff\xff"), []byte("{%\n")}}, [6]int{lvNeg, lvMin, lvNeg, lvMin, lvNeg, lvMin}},
}

func fitTmpl(l *layout, t *tmpl) rec {
	var r rec
	if l.has(tTopic) {
		r.topic = fitLen(l.nf[tTopic], []byte(t.topic))
	}
	if l.has(tKey) {
		r.key = fitLen(l.nf[tKey], []byte(t.key))
	}
	if l.has(tValue) {
		r.value = fitLen(l.nf[tValue], []byte(t.value))
	}
	if l.has(tHdrs) {
		r.hdrs = fitHdrs(l, t.hdrs)
	}
	for n := 0; n < 6; n++ {
		if l.has(tPart + n) {
			r.num[n] = resolve(t.lv[n], tPart+n, l.nf[tPart+n])
		}
	}
	return r
}

func compositeStreams(l *layout, b *bounds) [][]rec {
	fit := make([]rec, b.pool)
	for i := range fit {
		fit[i] = fitTmpl(l, &tmpls[i])
	}
	var out [][]rec
	sequences(b.pool, 1, 3, func(ix []int) {
		s := make([]rec, len(ix))
		for i, x := range ix {
			s[i] = fit[x]
			s[i].emptyNonNil = i == 1
		}
		out = append(out, s)
	})
	return out
}

// ---------------------------------------------------------------- layout families

type job struct {
	l       *layout
	streams func(*layout) [][]rec
	rks     []int
	trunc   int // also run the truncation sub-check on streams of at most this many records
}

func compose(w wrap, fs ...field) []elem {
	es := litElem(w.pre)
	for i, f := range fs {
		if i > 0 {
			es = append(es, litElem(w.sep)...)
		}
		es = append(es, f.es...)
	}
	return append(es, litElem(w.suf)...)
}

func innerKV(k numFmt, kenc int, v numFmt, venc int, d lit, variant int) []elem {
	kf, vf := textField(tKey, k, d, kenc), textField(tValue, v, d, venc)
	switch variant {
	case 1: // literals between and after
		return cat(kf, litElem(lit{"=", "="}), vf, litElem(lit{`;%}\n`, ";}\n"}))
	case 2: // value first
		return cat(vf, kf)
	case 3: // both sizes first
		return cat(sizeElems(tKey, k, d), sizeElems(tValue, v, d), []elem{{kind: eText, target: tKey, enc: kenc}, {kind: eText, target: tValue, enc: venc}})
	}
	return cat(kf, vf)
}

func generate(b *bounds, emit func(job)) {
	rkAll := []int{rkBytes, rkOneByte, rkDataErr}
	rkOne := []int{rkBytes}
	rkFor := func(single bool) []int {
		if b.rkAll || single {
			return rkAll
		}
		return rkOne
	}
	byteNF := nfByName("byte")

	// S1: one size-prefixed text field
	for t := tTopic; t <= tValue; t++ {
		for _, nf := range allNF {
			ds := []lit{{}}
			if nf.ascii {
				ds = b.delims
			}
			for _, d := range ds {
				for _, enc := range b.encs {
					t := t
					emit(job{mkLayout("single-text", textField(t, nf, d, enc)), func(l *layout) [][]rec { return textStreams(l, b, t) }, rkFor(true), 2})
				}
			}
		}
	}
	// S2: one number field
	for t := tPart; t <= tPepoch; t++ {
		for _, nf := range allNF {
			ds := []lit{{}}
			if nf.ascii {
				ds = b.delims
			}
			for _, d := range ds {
				t := t
				emit(job{mkLayout("single-number", numField(t, nf, d)), func(l *layout) [][]rec { return numStreams(l, t) }, rkFor(true), 2})
			}
		}
	}
	// S3: header blocks: count format sweep, key sweep, value sweep, then key x value cross product
	hs := func(l *layout) [][]rec { return hdrStreams(l, b) }
	seenHdr := map[string]bool{}
	emitHdr := func(es []elem, trunc int) {
		l := mkLayout("single-headers", es)
		if seenHdr[l.str] {
			return
		}
		seenHdr[l.str] = true
		emit(job{l, hs, rkFor(true), trunc})
	}
	for _, nf := range allNF {
		ds := []lit{{}}
		if nf.ascii {
			ds = b.delims
		}
		for _, d := range ds {
			for variant := 0; variant < 4; variant++ {
				emitHdr(hdrField(nf, d, innerKV(byteNF, encPlain, byteNF, encPlain, sp, variant)), 2)
				emitHdr(hdrField(byteNF, sp, innerKV(nf, encPlain, nf, encPlain, d, variant)), 2)
			}
			for _, enc := range b.encs {
				emitHdr(hdrField(byteNF, sp, innerKV(nf, enc, byteNF, encPlain, d, 0)), 2)
				emitHdr(hdrField(byteNF, sp, innerKV(byteNF, encPlain, nf, enc, d, 0)), 2)
			}
		}
	}
	for _, cnt := range b.hdrNF {
		for _, k := range b.hdrNF {
			for _, kenc := range b.encs {
				for _, v := range b.hdrNF {
					for _, venc := range b.encs {
						emitHdr(hdrField(cnt, sp, innerKV(k, kenc, v, venc, sp, 0)), 0)
					}
				}
			}
		}
	}

	// fields for composites
	mkFields := func(nfs []numFmt, encs []int) []field {
		var fs []field
		for _, nf := range nfs {
			for t := tTopic; t <= tValue; t++ {
				for _, enc := range encs {
					fs = append(fs, field{t, textField(t, nf, sp, enc)})
				}
			}
			for t := tPart; t <= tPepoch; t++ {
				fs = append(fs, field{t, numField(t, nf, sp)})
			}
			fs = append(fs, field{tHdrs, hdrField(nf, sp, innerKV(nf, encPlain, nf, encPlain, sp, 0))})
		}
		for _, enc := range encs {
			if encoded(enc) {
				fs = append(fs, field{tHdrs, hdrField(byteNF, sp, innerKV(byteNF, enc, byteNF, enc, sp, 0))})
			}
		}
		return fs
	}
	cs := func(l *layout) [][]rec { return compositeStreams(l, b) }
	// P: every ordered pair of fields with different targets
	pairs := func(fs []field, wraps []wrap, seen map[string]bool, rks []int) {
		for _, w := range wraps {
			for _, a := range fs {
				for _, c := range fs {
					if a.target == c.target {
						continue
					}
					l := mkLayout("ordered-pair", compose(w, a, c))
					if seen[l.str] {
						continue
					}
					seen[l.str] = true
					emit(job{l, cs, rks, 0})
				}
			}
		}
	}
	seenPair := map[string]bool{}
	pairs(mkFields(b.pairNF, b.encs), b.wraps, seenPair, rkFor(false))
	if b.pairFullNF != nil {
		pairs(mkFields(b.pairFullNF, b.encs), allWraps[:1], seenPair, rkOne)
	}

	// SF: all sizes first, then the payloads
	for _, ts := range [][]int{{tTopic, tKey}, {tKey, tValue}, {tValue, tKey}, {tTopic, tKey, tValue}, {tValue, tKey, tTopic}} {
		for _, nf := range allNF {
			for _, enc := range b.encs {
				for _, w := range b.wraps[:2] {
					var sizes, texts []elem
					for _, t := range ts {
						sizes = append(sizes, sizeElems(t, nf, sp)...)
						texts = append(texts, elem{kind: eText, target: t, enc: enc})
					}
					es := cat(litElem(w.pre), sizes, litElem(w.sep), texts, litElem(w.suf))
					emit(job{mkLayout("sizes-first", es), cs, rkFor(true), 2})
				}
			}
		}
	}

	// FULL: all ten fields in one layout
	base := []int{tTopic, tKey, tValue, tHdrs, tPart, tOff, tEpoch, tTime, tPid, tPepoch}
	var orders [][]int
	for s := 0; s < len(base); s++ {
		orders = append(orders, append(append([]int{}, base[s:]...), base[:s]...))
	}
	rev := make([]int, len(base))
	for i, t := range base {
		rev[len(base)-1-i] = t
	}
	orders = append(orders, rev, []int{tPart, tTopic, tOff, tKey, tEpoch, tValue, tTime, tHdrs, tPid, tPepoch})
	if !ev.Thorough() {
		orders = [][]int{orders[0], orders[5], orders[10], orders[11]}
	}
	type assign func(t int) (numFmt, int)
	var assigns []assign
	fullNF := allNF
	if !ev.Thorough() {
		fullNF = append(append([]numFmt{}, b.pairNF...), nfSet("hex64", "big32", "little16", "bool")...)
	}
	for _, nf := range fullNF {
		for _, enc := range b.encs {
			nf, enc := nf, enc
			assigns = append(assigns, func(int) (numFmt, int) { return nf, enc })
		}
	}
	for s := 0; s < len(allNF); s++ {
		s := s
		assigns = append(assigns, func(t int) (numFmt, int) { return allNF[(t*5+s)%len(allNF)], b.encs[(t+s)%len(b.encs)] })
	}
	for _, w := range b.wraps {
		for _, ord := range orders {
			for _, as := range assigns {
				var fs []field
				for _, t := range ord {
					nf, enc := as(t)
					switch {
					case t <= tValue:
						fs = append(fs, field{t, textField(t, nf, sp, enc)})
					case t == tHdrs:
						knf, kenc := as(tKey)
						vnf, venc := as(tValue)
						fs = append(fs, field{t, hdrField(nf, sp, innerKV(knf, kenc, vnf, venc, sp, 0))})
					default:
						fs = append(fs, field{t, numField(t, nf, sp)})
					}
				}
				emit(job{mkLayout("full", compose(w, fs...)), cs, rkFor(true), 1})
			}
		}
	}

	generateLong(b, emit, rkAll)
}

// Length classes around every size threshold visible in record_formatter.go or
// implied by it: readSize's 64 KiB chunk (65535, 65536, 65537, 100000, two
// chunks -1/0/+5, three chunks +5), the 4 KiB bufio.Reader the RecordReader
// wraps its input in (4095, 4096, 4097, 8192), and the unsigned maxima / sign
// bits of the 8- and 16-bit size encodings (127, 128, 255, 256, 257, 32767,
// 32768, 65535).
var longLens = []int{127, 128, 255, 256, 257, 4095, 4096, 4097, 8192, 32767, 32768, 65535, 65536, 65537, 100000, 131071, 131072, 131077, 196613}
var manyHdrs = []int{127, 128, 255, 256, 257, 1000}

const (
	lkTopic = iota
	lkKey
	lkValue
	lkHdrKey
	lkHdrValue
	nLongKinds
)

// generateLong: for every size-prefixed field kind x every size encoding wide
// enough x every length class, two layouts in which the long field is followed
// by further fields of the same record, and streams in which the long record
// is followed by another record, so that an over- or under-read is visible.
func generateLong(b *bounds, emit func(job), rks []int) {
	byteNF := nfByName("byte")
	plainEncs := []int{encPlain}
	if ev.Thorough() {
		plainEncs = []int{encPlain, encPlainBrace}
	}
	small := func(i int) rec {
		return rec{topic: []byte("t"), key: []byte{byte('0' + i)}, value: []byte("v\n"), hdrs: []hdr{{[]byte("h"), []byte{0xff}}, {[]byte("i"), nil}},
			num: [6]int64{int64(0x01020304 + i), 0x0102030405060708, 0, 0, 0, 0}}
	}
	for kind := 0; kind < nLongKinds; kind++ {
		for _, nf := range allNF {
			var lens []int
			for _, n := range longLens {
				if int64(n) <= nf.maxU() {
					lens = append(lens, n)
				}
			}
			if len(lens) == 0 {
				continue
			}
			for _, enc := range plainEncs {
				for variant := 0; variant < 2; variant++ {
					// the long field F, a small sized text field S, numbers
					var f, s []elem
					switch kind {
					case lkTopic, lkKey, lkValue:
						f = textField(kind, nf, sp, enc)
						other := (kind + 1) % 3
						s = textField(other, byteNF, sp, encPlain)
					case lkHdrKey:
						f = hdrField(byteNF, sp, innerKV(nf, enc, byteNF, encPlain, sp, variant*3))
						s = textField(tValue, byteNF, sp, encPlain)
					case lkHdrValue:
						f = hdrField(byteNF, sp, innerKV(byteNF, encPlain, nf, enc, sp, variant*3))
						s = textField(tKey, byteNF, sp, encPlain)
					}
					p := numField(tPart, nfByName("big32"), sp)
					o := numField(tOff, nfByName("hex64"), sp)
					var es []elem
					if variant == 0 {
						es = cat(f, p, s, o) // long field first
					} else {
						es = cat(p, s, litElem(lit{"|", "|"}), f, o, litElem(lit{`\n`, "\n"})) // long field after others, literal around
					}
					kind, lens := kind, lens
					emit(job{mkLayout("long-field", es), func(l *layout) [][]rec {
						var out [][]rec
						for _, n := range lens {
							long := func(seed byte, n int) rec {
								r := small(int(seed % 8))
								p := pat(seed, n)
								switch kind {
								case lkTopic, lkKey, lkValue:
									setText(&r, kind, p)
								case lkHdrKey:
									r.hdrs = []hdr{{p, []byte("x")}, {[]byte("after"), []byte("y")}}
								case lkHdrValue:
									r.hdrs = []hdr{{[]byte("k"), p}, {[]byte("after"), []byte("y")}}
								}
								return r
							}
							out = append(out,
								[]rec{long(3, n), small(1)},
								[]rec{small(2), long(5, n)},
								[]rec{long(7, n), long(9, n), small(3)})
						}
						return out
					}, rks, 0})
				}
			}
		}
	}
	// many headers: the %H count around the same 8-bit thresholds and beyond
	for _, nf := range allNF {
		var counts []int
		for _, n := range manyHdrs {
			if int64(n) <= nf.maxU() {
				counts = append(counts, n)
			}
		}
		if len(counts) == 0 {
			continue
		}
		es := cat(hdrField(nf, sp, innerKV(byteNF, encPlain, byteNF, encPlain, sp, 0)), numField(tPart, nfByName("big32"), sp))
		emit(job{mkLayout("many-headers", es), func(l *layout) [][]rec {
			var out [][]rec
			for _, n := range counts {
				many := rec{num: [6]int64{0x01020304}}
				for i := 0; i < n; i++ {
					many.hdrs = append(many.hdrs, hdr{[]byte(strconv.Itoa(i)), []byte{byte(i), byte(i >> 8)}})
				}
				out = append(out, []rec{many, small(1)}, []rec{small(2), many})
			}
			return out
		}, rks, 0})
	}
}

// ---------------------------------------------------------------- execution

type jrec struct {
	Topic       string      `json:"topic_hex,omitempty"`
	Key         string      `json:"key_hex,omitempty"`
	Value       string      `json:"value_hex,omitempty"`
	Headers     [][2]string `json:"headers_hex,omitempty"`
	Nums        [6]int64    `json:"partition_offset_epoch_tsms_pid_pepoch"`
	EmptyNonNil bool        `json:"empty_as_non_nil,omitempty"`
	Text        string      `json:"text"`
}

type artefact struct {
	Layout     string   `json:"layout"`
	Family     string   `json:"family"`
	Carries    []string `json:"carries"`
	ReaderKind int      `json:"reader_kind"`
	Reader     string   `json:"reader"`
	Records    []jrec   `json:"records"`
	Stream     string   `json:"stream_written"`
	FailedAt   int      `json:"failed_at_record"`
	Failure    string   `json:"failure"`
	Got        string   `json:"got,omitempty"`
	Count      int64    `json:"cases_in_class"`
}

// encField is the replayable spelling of a payload: hex, or "pat:<seed>:<len>"
// for the long generated payloads.
func encField(b []byte) string {
	if len(b) > 256 && bytes.Equal(b, pat(b[0], len(b))) {
		return fmt.Sprintf("pat:%d:%d", b[0], len(b))
	}
	return hex.EncodeToString(b)
}

func decField(s string) []byte {
	var seed, n int
	if c, _ := fmt.Sscanf(s, "pat:%d:%d", &seed, &n); c == 2 {
		return pat(byte(seed), n)
	}
	b, _ := hex.DecodeString(s)
	return b
}

func toJrec(r *rec) jrec {
	j := jrec{Topic: encField(r.topic), Key: encField(r.key), Value: encField(r.value), Nums: r.num, EmptyNonNil: r.emptyNonNil}
	txt := "topic=" + abbr(r.topic) + " key=" + abbr(r.key) + " value=" + abbr(r.value) + " headers=["
	for i, h := range r.hdrs {
		j.Headers = append(j.Headers, [2]string{encField(h.k), encField(h.v)})
		if i < 4 || len(r.hdrs) <= 8 {
			txt += abbr(h.k) + ":" + abbr(h.v) + " "
		} else if i == 4 {
			txt += fmt.Sprintf("...(%d headers) ", len(r.hdrs))
		}
	}
	j.Text = txt + fmt.Sprintf("] partition=%d offset=%d leader-epoch=%d timestamp-ms=%d producer-id=%d producer-epoch=%d", r.num[0], r.num[1], r.num[2], r.num[3], r.num[4], r.num[5])
	return j
}

func fromJrec(j *jrec) rec {
	dh := decField
	r := rec{topic: dh(j.Topic), key: dh(j.Key), value: dh(j.Value), num: j.Nums, emptyNonNil: j.EmptyNonNil}
	for _, h := range j.Headers {
		r.hdrs = append(r.hdrs, hdr{dh(h[0]), dh(h[1])})
	}
	return r
}

type class struct {
	count int64
	score int
	what  string
	art   artefact
}

type stats struct {
	layouts    map[string]int64 // by family
	layoutHash map[uint64]struct{}
	streams    [4]int64 // by number of records
	records    int64
	execs      int64 // reader runs (streams x reader kinds)
	byRK       [nReaderKinds]int64
	ti         truncInfo
	classes    map[string]*class
	br         *bufio.Reader // reusable buffered reader of this worker
	// failures seen on a reader reused through SetReader are re-run on a fresh
	// reader; reusedOnly counts those that a fresh reader did not reproduce.
	reusedRetry, reusedOnly int64
	cpu                     map[string]time.Duration // busy time by family
}

func newStats() *stats {
	return &stats{layouts: map[string]int64{}, layoutHash: map[uint64]struct{}{}, classes: map[string]*class{}, br: bufio.NewReaderSize(nil, 4096), cpu: map[string]time.Duration{}}
}

func (s *stats) record(l *layout, recs []rec, rk int, stream []byte, fl *failure) {
	key, _ := classify(l, recs, fl, false)
	c := s.classes[key]
	if c == nil {
		c = &class{score: 1 << 30}
		s.classes[key] = c
	}
	c.count++
	score := len(l.str)*4 + len(stream) + 50*len(recs) + 1000*rk
	if score >= c.score {
		return
	}
	_, what := classify(l, recs, fl, true)
	c.score, c.what = score, what
	a := artefact{Layout: l.str, Family: l.family, Carries: l.carriedNames(), ReaderKind: rk, Reader: readerKindNames[rk],
		Stream: abbrStream(stream), FailedAt: fl.idx, Failure: fl.kind}
	if fl.err != "" {
		a.Failure += ": " + fl.err
	}
	if fl.kind == "field-mismatch" {
		a.Failure += " in " + targetNames[fl.target]
	}
	if fl.got != nil {
		a.Got = gotString(l, fl.got)
	}
	for i := range recs {
		a.Records = append(a.Records, toJrec(&recs[i]))
	}
	c.art = a
}

func abbrStream(b []byte) string {
	if len(b) <= 400 {
		return strconv.Quote(string(b))
	}
	return fmt.Sprintf("%q...(%d bytes)", b[:64], len(b))
}

// guard runs fn and turns a panic into a failure.
func guard(fn func() *failure) (fl *failure) {
	defer func() {
		if p := recover(); p != nil {
			fl = &failure{kind: "panic", err: fmt.Sprint(p)}
		}
	}()
	return fn()
}

func runJob(j job, s *stats) {
	l := j.l
	t0 := time.Now()
	defer func() { s.cpu[l.family] += time.Since(t0) }()
	s.layouts[l.family]++
	h := fnv.New64a()
	h.Write([]byte(l.str))
	s.layoutHash[h.Sum64()] = struct{}{}

	var f *kgo.RecordFormatter
	if fl := guard(func() *failure {
		var err error
		if f, err = kgo.NewRecordFormatter(l.str); err != nil {
			return &failure{kind: "formatter-rejects-layout", err: err.Error()}
		}
		_, err = kgo.NewRecordReader(mkReader(rkBytes, nil), l.str)
		if err != nil {
			return &failure{kind: "reader-rejects-layout", err: err.Error()}
		}
		return nil
	}); fl != nil {
		s.execs++
		s.record(l, nil, rkBytes, nil, fl)
		return
	}

	var rds [nReaderKinds]*kgo.RecordReader
	for si, recs := range j.streams(l) {
		br := s.br
		if si == 0 {
			br = nil // first stream of every layout: the reader wraps the raw io.Reader itself
		}
		s.streams[len(recs)]++
		s.records += int64(len(recs))
		var stream []byte
		var bnd []int
		if fl := guard(func() *failure { stream, bnd = write(l, f, recs); return nil }); fl != nil {
			s.execs++
			s.record(l, recs, rkBytes, nil, fl)
			continue
		}
		ok := true
		for _, rk := range j.rks {
			s.execs++
			s.byRK[rk]++
			reused := rds[rk] != nil && br != nil
			var fl *failure
			if reused {
				fl = guard(func() (f *failure) { f, rds[rk] = readBack(l, stream, recs, rk, br, rds[rk]); return })
				if fl != nil { // only a failure of a fresh reader counts
					s.reusedRetry++
					fl = guard(func() (f *failure) { f, _ = readBack(l, stream, recs, rk, br, nil); return })
					if fl == nil {
						s.reusedOnly++
					}
					rds[rk] = nil
				}
			} else {
				fl = guard(func() (f *failure) { f, rds[rk] = readBack(l, stream, recs, rk, br, nil); return })
				if fl != nil {
					rds[rk] = nil
				}
			}
			if fl != nil {
				s.record(l, recs, rk, stream, fl)
				ok = false
			}
		}
		if ok && len(recs) <= j.trunc {
			if fl := guard(func() *failure { return truncated(l, stream, bnd, recs, &s.ti, br) }); fl != nil {
				s.record(l, recs, rkBytes, stream, fl)
			}
		}
	}
}

func replay(path string) {
	b, err := os.ReadFile(path)
	if err != nil {
		ev.InfraError("replay: %v", err)
	}
	var v struct {
		Key      string   `json:"key"`
		Artefact artefact `json:"artefact"`
	}
	if err := json.Unmarshal(b, &v); err != nil {
		ev.InfraError("replay: %v", err)
	}
	a := v.Artefact
	l := &layout{str: a.Layout, family: a.Family}
	for _, n := range a.Carries {
		for t, tn := range targetNames {
			if tn == n {
				l.carries |= 1 << uint(t)
			}
		}
	}
	var recs []rec
	for i := range a.Records {
		recs = append(recs, fromJrec(&a.Records[i]))
	}
	fmt.Printf("layout  %q\ncarries %v\nreader  %s\n", a.Layout, a.Carries, readerKindNames[a.ReaderKind])
	var stream []byte
	var bnd []int
	fl := guard(func() *failure {
		f, err := kgo.NewRecordFormatter(l.str)
		if err != nil {
			return &failure{kind: "formatter-rejects-layout", err: err.Error()}
		}
		stream, bnd = write(l, f, recs)
		f2, _ := readBack(l, stream, recs, a.ReaderKind, nil, nil)
		return f2
	})
	for i := range recs {
		fmt.Printf("record %d: %s\n", i, a.Records[i].Text)
	}
	fmt.Printf("stream  %s\n", abbrStream(stream))
	if fl == nil {
		var ti truncInfo
		fl = guard(func() *failure { return truncated(l, stream, bnd, recs, &ti, nil) })
	}
	if fl == nil {
		fmt.Println("verdict: HELD (reads back, io.EOF exactly at the end)")
		os.Exit(0)
	}
	fmt.Printf("verdict: VIOLATION at record %d: %s %s", fl.idx, fl.kind, fl.err)
	if fl.kind == "field-mismatch" {
		fmt.Printf(" in %s; got %s", targetNames[fl.target], gotString(l, fl.got))
	}
	fmt.Println()
	os.Exit(1)
}

func main() {
	if len(os.Args) == 3 && os.Args[1] == "--replay" {
		replay(os.Args[2])
	}
	if pf := os.Getenv("C20_CPUPROFILE"); pf != "" {
		f, err := os.Create(pf)
		if err == nil {
			pprof.StartCPUProfile(f)
			defer pprof.StopCPUProfile()
		}
	}
	r := ev.New("C20", "exploration")

	// Text encodings: those both constructors accept on this tree. The reader
	// documents "base64", "hex" (and json/re, which have no formatter
	// counterpart); base64raw is a formatter-only option unless the reader of
	// the tree under test accepts it.
	readerEncs := []int{encPlain, encPlainBrace, encHex, encB64}
	rawNote := "accepted by NewRecordReader: included in the grammar"
	func() {
		defer func() {
			if p := recover(); p != nil {
				r.Violation("panic", "NewRecordReader panicked on %V{byte}%v{base64raw}: "+fmt.Sprint(p), map[string]string{"layout": "%V{byte}%v{base64raw}"})
			}
		}()
		if _, err := kgo.NewRecordReader(mkReader(rkBytes, nil), "%V{byte}%v{base64raw}"); err != nil {
			rawNote = "excluded: formatter-only option, NewRecordReader rejects it (" + err.Error() + ")"
		} else {
			readerEncs = append(readerEncs, encB64Raw)
		}
	}()
	b := tierBounds(readerEncs)

	deadline := ev.Deadline(180*time.Second, 40*time.Minute)
	jobs := make(chan job, 256)
	var wg sync.WaitGroup
	all := make([]*stats, ev.Workers())
	var skipped int64
	var skipMu sync.Mutex
	for w := range all {
		all[w] = newStats()
		wg.Add(1)
		go func(s *stats) {
			defer wg.Done()
			for j := range jobs {
				if time.Now().After(deadline) {
					skipMu.Lock()
					skipped++
					skipMu.Unlock()
					continue
				}
				runJob(j, s)
			}
		}(all[w])
	}
	t0 := time.Now()
	generate(&b, func(j job) { jobs <- j })
	close(jobs)
	tGen := time.Since(t0)
	wg.Wait()
	fmt.Fprintf(os.Stderr, "C20: layout generator done after %.1fs, workers done after %.1fs\n", tGen.Seconds(), time.Since(t0).Seconds())

	// merge
	tot := newStats()
	for _, s := range all {
		for k, v := range s.layouts {
			tot.layouts[k] += v
		}
		for k := range s.layoutHash {
			tot.layoutHash[k] = struct{}{}
		}
		for i := range s.streams {
			tot.streams[i] += s.streams[i]
		}
		for i := range s.byRK {
			tot.byRK[i] += s.byRK[i]
		}
		tot.records += s.records
		for k, v := range s.cpu {
			tot.cpu[k] += v
		}
		tot.reusedRetry += s.reusedRetry
		tot.reusedOnly += s.reusedOnly
		tot.execs += s.execs
		tot.ti.cuts += s.ti.cuts
		tot.ti.unexpectedEOF += s.ti.unexpectedEOF
		tot.ti.otherErr += s.ti.otherErr
		tot.ti.bogusRecord += s.ti.bogusRecord
		tot.ti.prefixAnomaly += s.ti.prefixAnomaly
		for k, c := range s.classes {
			t := tot.classes[k]
			if t == nil {
				t = &class{score: 1 << 30}
				tot.classes[k] = t
			}
			t.count += c.count
			if c.score < t.score {
				t.score, t.what, t.art = c.score, c.what, c.art
			}
		}
	}

	var nLayouts int64
	for _, n := range tot.layouts {
		nLayouts += n
	}
	for k := range tot.layoutHash {
		r.DistinctHash(k)
	}
	r.Evals(tot.execs + tot.ti.cuts)
	r.Rule("every layout of the size-prefixed/fixed-width grammar documented by BOTH NewRecordFormatter and NewRecordReader " +
		"(text verbs %t %k %v always preceded by %T %K %V in one of 18 number spellings, ascii ones followed by a delimiter; plain, {}, hex, base64 payloads; " +
		"%H + %h{%K%k%V%v} header blocks; %p %o %e %d %x %y in each number spelling; literal prefixes/separators/suffixes incl. %% %{ %} and slash escapes): " +
		"all single-field layouts, all ordered pairs of fields with different targets, sizes-first layouts and full ten-field concatenations in 12 orders; " +
		"x records (all byte strings of length 0..3 over the alphabet for single text fields; numbers 0,1,2,boundaries,byte-order patterns, the maximum of the layout's width, " +
		"negative values only where the width is at least the field's type; 0..2 headers) x streams of 1..3 records x reader kinds; " +
		"plus length classes: each size-prefixed field kind (topic, key, value, header key, header value) x each size encoding wide enough x each length at a threshold " +
		"(64 KiB readSize chunk, 4 KiB bufio buffer, 8/16-bit maxima and sign bits: 127..196613) in two layouts with following fields and three streams with a following record, " +
		"and %H counts 127..1000. " +
		"The real formatter writes, a fresh real reader with the same layout string must return every carried field and then io.EOF. " +
		"distinct = distinct layout strings executed")
	r.Assume(
		"the layout string is passed unchanged to both constructors; only documented verbs/modifiers are used",
		"nil and empty keys/values are not distinguished (not documented); fields the layout does not carry are not compared",
		"timestamps stay within time.Time's UnixNano range (the formatter prints UnixNano()/1e6), i.e. |ms| <= MaxInt64/1e6",
		"ascii numbers are non-negative (the reader documents 'parse numeric digits') and always followed by a non-digit delimiter",
		"base64raw: "+rawNote,
		"truncation sub-check (cuts strictly inside a record of a stream that round-trips) only demands what ReadRecord documents: no io.EOF mid record",
	)
	r.Set("layouts_executed", nLayouts)
	r.Set("distinct_layouts", len(tot.layoutHash))
	r.Set("layouts_by_family", tot.layouts)
	r.Set("streams_by_length", map[string]int64{"1": tot.streams[1], "2": tot.streams[2], "3": tot.streams[3]})
	r.Set("streams_written", tot.streams[1]+tot.streams[2]+tot.streams[3])
	r.Set("records_written", tot.records)
	r.Set("reader_runs_full_stream", tot.execs)
	r.Set("reader_runs_by_kind", map[string]int64{readerKindNames[0]: tot.byRK[0], readerKindNames[1]: tot.byRK[1], readerKindNames[2]: tot.byRK[2]})
	r.Set("truncation_cuts", map[string]int64{"cuts": tot.ti.cuts, "unexpected_eof": tot.ti.unexpectedEOF, "other_error": tot.ti.otherErr,
		"record_returned_without_error": tot.ti.bogusRecord, "complete_prefix_not_read_back": tot.ti.prefixAnomaly})
	r.Set("reader_reuse", map[string]int64{"failures_rerun_on_fresh_reader": tot.reusedRetry, "not_reproduced_by_fresh_reader": tot.reusedOnly})
	busy := map[string]float64{}
	for k, v := range tot.cpu {
		busy[k] = float64(int(v.Seconds()*10)) / 10
	}
	r.Set("worker_busy_seconds_by_family", busy)
	r.Set("number_spellings", len(allNF))
	r.Set("text_encodings", func() []string {
		var o []string
		for _, e := range b.encs {
			o = append(o, encNames[e])
		}
		return o
	}())
	r.Set("bound_completed", map[string]any{"payload_alphabet": strconv.Quote(string(b.alphabet)), "payload_max_len": b.maxLen, "ascii_delimiters": len(b.delims),
		"wraps": len(b.wraps), "composite_record_pool": b.pool, "max_stream_records": 3, "max_headers": 2,
		"long_field_lengths": longLens, "many_headers_counts": manyHdrs, "long_field_kinds": nLongKinds})
	if skipped > 0 {
		r.NotExhaustive(fmt.Sprintf("soft deadline reached, %d layouts not run", skipped))
	}

	keys := make([]string, 0, len(tot.classes))
	for k := range tot.classes {
		keys = append(keys, k)
	}
	sort.Strings(keys)
	vc := map[string]int64{}
	for _, k := range keys {
		c := tot.classes[k]
		vc[k] = c.count
		c.art.Count = c.count
		what := fmt.Sprintf("%s\nminimal case: layout %q, records:", c.what, c.art.Layout)
		for _, jr := range c.art.Records {
			what += "\n  " + jr.Text
		}
		what += fmt.Sprintf("\nstream written %s; %s at record %d", c.art.Stream, c.art.Failure, c.art.FailedAt)
		if c.art.Got != "" {
			what += "; got " + c.art.Got
		}
		what += fmt.Sprintf(" (%d cases in this class)", c.count)
		r.Violation(k, what, c.art)
	}
	if len(vc) > 0 {
		r.Set("failing_cases_by_class", vc)
	}
	// samples: real cases written out
	for _, s := range sampleCases(&b) {
		r.Sample(s)
	}
	pprof.StopCPUProfile()
	r.Finish()
}

// sampleCases writes out a few explored cases (layout, records, stream).
func sampleCases(b *bounds) []any {
	var out []any
	seen := map[string]int{}
	generate(b, func(j job) {
		seen[j.l.family]++
		n := seen[j.l.family]
		if len(out) >= 8 || (n != 7 && !(n == 301 && (j.l.family == "ordered-pair" || j.l.family == "full"))) {
			return
		}
		f, err := kgo.NewRecordFormatter(j.l.str)
		if err != nil {
			return
		}
		ss := j.streams(j.l)
		recs := ss[len(ss)*2/3]
		stream, _ := write(j.l, f, recs)
		var rs []string
		for i := range recs {
			rs = append(rs, toJrec(&recs[i]).Text)
		}
		out = append(out, map[string]any{"family": j.l.family, "layout": j.l.str, "records": rs, "stream": strconv.Quote(string(stream))})
	})
	return out
}
